"""Check harness: shapes -> symbolic paths -> obligations -> solver verdicts -> replay -> evidence."""
import contextlib
import fnmatch
import hashlib
import importlib
import io
import json
import multiprocessing as mp
import os
import subprocess
import sys
import time
import traceback

import z3

from symx import engine, formula
from symx.formula import And, Not

VERIF = os.path.dirname(os.path.dirname(os.path.abspath(__file__)))
REPLAY_DIR = os.path.join(VERIF, "replays")
EVIDENCE_DIR = os.path.join(VERIF, "evidence")
PY = "/venv/bin/python"

EXIT_OK, EXIT_VIOLATION, EXIT_INCONCLUSIVE = 0, 1, 3


class Ctx:
    """Bag of handles returned by a shape builder."""

    def __init__(self, **kw):
        self.extra_assume = []
        self.__dict__.update(kw)


class Shape:
    def __init__(self, name, build, obligations, solver_cfg=None, initialize=True, all_sym=False,
                 tags=()):
        self.name = name
        self.build = build
        self.obligations = obligations
        self.solver_cfg = solver_cfg or {}
        self.initialize = initialize
        self.all_sym = all_sym
        self.tags = tags


class Ob:
    """One proof obligation.
    kind 'sound'    : assume+pc+phi+guard => clause      (negation must be unsat; reach twin sat)
    kind 'complete' : assume+pc+valid => exists aux. phi (negation must be unsat; valid sat)
    kind 'custom'   : fn(ctx, path) -> dict(status=..., witness=..., ...)
    """

    def __init__(self, oid, kind="sound", clause=None, guard=True, valid=None, observables=None,
                 fn=None, replayer=None, note=None, phi=None, timeout_ms=60000, extra=None, transform=None, twin=None):
        self.transform = transform  # callable(phi list) -> phi list (explicit witnesses for arrays/functions)
        # 'complete' obligations between two builds of the same code: the assertion list `valid` stands for; its private
        # constants are tried, by position, as the witness of phi's (quantifier-free query) before the quantified route
        self.twin = twin
        self.id = oid
        self.kind = kind
        self.clause = clause
        self.guard = guard
        self.valid = valid
        self.observables = observables
        self.fn = fn
        self.replayer = replayer
        self.note = note
        self.phi = phi
        self.timeout_ms = timeout_ms
        self.extra = extra or {}


@contextlib.contextmanager
def quiet():
    buf = io.StringIO()
    with contextlib.redirect_stdout(buf):
        yield buf


_PROFILE = set()


def _prof(frame, event, arg):
    if event == "call":
        co = frame.f_code
        fn = co.co_filename
        if "/processscheduler/" in fn:
            _PROFILE.add(f"{os.path.basename(fn)}:{getattr(co, 'co_qualname', co.co_name)}")


def tracking_literals(phi):
    """In debug mode assert_and_track shows up as Implies(asst_<id>, formula); z3 assumes every
    tracking literal at check() time, so the denoted constraint system is phi under all of them."""
    lits = []
    for a in phi:
        if z3.is_implies(a) and z3.is_const(a.arg(0)) and a.arg(0).decl().name().startswith("asst_"):
            lits.append(a.arg(0))
    return lits


def build_symbolic(shape, profile=False):
    """Explore the shape builder + the real initialize(); returns the list of paths."""
    import processscheduler as ps

    ex = engine.Explorer(all_sym=shape.all_sym, max_paths=getattr(shape, "max_paths", 512))

    def run():
        P = engine.Params("sym", explorer=ex)
        ex.cur_P = P
        ctx = shape.build(P)
        ctx.P = P
        if getattr(shape, "assumptions", None):
            ctx.extra_assume = list(ctx.extra_assume) + list(shape.assumptions(P))
        if shape.initialize:
            # a shape may construct the solver object early (before later declarations)
            solver = getattr(ctx, "early_solver", None) or ps.SchedulingSolver(problem=ctx.problem, **shape.solver_cfg)
            solver.initialize()
            ctx.solver = solver
            ctx.phi = list(solver._solver.assertions())
            if solver.debug:
                ctx.extra_assume = list(ctx.extra_assume) + tracking_literals(ctx.phi)
        return ctx

    with quiet():
        if profile:
            sys.setprofile(_prof)
        try:
            paths = ex.run(run)
        finally:
            if profile:
                sys.setprofile(None)
    return ex, paths


def build_concrete(shape, values, solver_cfg=None, initialize=True):
    """Build the shape through the unpatched API at concrete parameter values."""
    import processscheduler as ps

    P = engine.Params("conc", values=values)
    with quiet():
        ctx = shape.build(P)
        ctx.P = P
        if getattr(shape, "assumptions", None):
            ctx.extra_assume = list(ctx.extra_assume) + list(shape.assumptions(P))
        cfg = dict(shape.solver_cfg)
        cfg.update(solver_cfg or {})
        if initialize and shape.initialize:
            solver = getattr(ctx, "early_solver", None) or ps.SchedulingSolver(problem=ctx.problem, **cfg)
            solver.initialize()
            ctx.solver = solver
            ctx.phi = list(solver._solver.assertions())
    engine.reset_z3_globals()
    return ctx


def _base(ctx, path):
    return [formula.to_z3(x) for x in list(path.assume) + list(path.pc) + list(getattr(ctx, "extra_assume", None) or [])]


def witness_from_model(model, assertions, P):
    consts, _ = formula.constants(assertions)
    md = formula.model_dict(model, consts)
    params = {}
    for name in P.names:
        t = P.terms[name]
        params[name] = formula.val(model, t) if z3.is_expr(t) else t
    pins = {k: v for k, v in md.items() if not k.startswith("p_") and not k.startswith("__choice")}
    return params, pins


def concretisation_point(exc):
    """True when the exception surfaced inside z3 (or a builtin called by it) because a symbolic term was used where
    a plain Python number is needed - e.g. z3.IntVal(term) - as opposed to a `raise` of the library"""
    tb = exc.__traceback__
    last = None
    while tb is not None:
        last = tb
        tb = tb.tb_next
    fn = last.tb_frame.f_code.co_filename if last is not None else ""
    return "/z3/" in fn or isinstance(exc, z3.Z3Exception)


def raised_by_library(exc):
    """True when the exception comes out of processscheduler (or of a library it called) rather than out of the
    harness itself: walking the traceback outwards from the innermost frame, the first frame that belongs to
    either /verif or processscheduler decides."""
    tb = exc.__traceback__
    frames = []
    while tb is not None:
        frames.append(tb.tb_frame.f_code.co_filename)
        tb = tb.tb_next
    for fn in reversed(frames):
        if "/processscheduler/" in fn:
            return True
        if fn.startswith(VERIF) or "/symx/" in fn or "/checks/" in fn:
            return False
    return False


def library_failure(fn):
    """Decorator for concrete-layer obligations: a valid use of the public API that makes the library raise
    is a counterexample (replayed like any other), a failure inside the harness stays an error."""
    def wrapped(ctx, path):
        try:
            return fn(ctx, path)
        except Exception as e:
            if raised_by_library(e):
                return {"status": "sat", "queries": 1, "witness": {"params": {}, "pins": {}, "what": f"the library raised {type(e).__name__}: {str(e)[:200]}"}}
            raise
    return wrapped


def crash_obligations(prop, shape_name, replayer, what):
    """on_exception handler factory for shapes whose property promises a result for every valid input (a report, an
    export, a chart): an exception raised by the library on a feasible path is a counterexample - the parameters
    of the path are handed to `replayer`, which must reproduce the failure through the public API on the real
    solver. Exceptions that surface in the harness or in z3 (a symbol reaching a concretisation point) stay errors."""
    def handler(path):
        if not raised_by_library(path.exc):
            return None  # -> reported as a harness error by run_shape

        def fn(ctx, p):
            base = [formula.to_z3(x) for x in list(p.assume) + list(p.pc)]
            v, m, _ = formula.solve(base, 20000)
            if v != "sat":
                return {"status": "unknown", "note": "path of the exception could not be realised"}
            P = getattr(p, "P", None)
            params = {n: (formula.val(m, t) if z3.is_expr(t) else t) for n, t in P.terms.items()} if P is not None else {}
            exc = p.exc
            return {"status": "sat", "queries": 1, "witness": {"params": params, "pins": {}, "what": f"{what}: the library raised {type(exc).__name__}: {str(exc)[:160]}"}}
        return [Ob(f"{prop}/{shape_name}/library_does_not_raise", "custom", fn=fn, replayer=replayer)]
    return handler


def replay_build_crash(desc):
    """generic replayer for shapes without symbolic parameters whose builder only uses the public API and the real
    solver's initialize(): the builder is run again in the unpatched replay interpreter"""
    shape = get_shape(desc["module"], desc["shape"])
    from symx import engine
    try:
        with quiet():
            shape.build(engine.Params("conc", values=(desc.get("witness") or {}).get("params") or {}))
    except Exception as e:
        if raised_by_library(e):
            print(f"CONFIRMED: the library raised {type(e).__name__}: {str(e)[:200]} on a well-formed problem")
            return 1
        raise
    print("replay: the problem was built and initialised without error")
    return 0


def confirm_library_failure(replayer):
    """Decorator for the replay functions of concrete-layer obligations: if the library raises again on the
    same valid use, the violation is confirmed."""
    def wrapped(desc):
        try:
            return replayer(desc)
        except Exception as e:
            if raised_by_library(e):
                print(f"CONFIRMED: the library raised {type(e).__name__}: {str(e)[:200]}")
                return 1
            raise
    return wrapped


def auto_named(ctx):
    """uid-named observables every problem has: indicator variables (Indicator_<ClassName>_<uid> for the
    built-in indicators) and the applied flags of optional constraints, aliased by declaration position so
    that a replay can pin them"""
    pb = getattr(ctx, "problem", None)
    if pb is None:
        return
    named = dict(getattr(ctx, "named", None) or {})
    try:
        for i, ind in enumerate(pb.indicators.values()):
            named.setdefault(f"__indicator_{i}", ind._indicator_variable)
        for i, c in enumerate(pb.constraints.values()):
            if z3.is_expr(getattr(c, "_applied", None)):
                named.setdefault(f"__applied_{i}", c._applied)
    except Exception:
        return
    ctx.named = named


def alias_values(model, ctx):
    auto_named(ctx)
    """Values of observables whose z3 names contain run-specific uids (applied flags, selection
    Booleans): recorded under a stable alias chosen by the shape (ctx.named)."""
    out = {}
    for alias, term in (getattr(ctx, "named", None) or {}).items():
        if z3.is_expr(term):
            out[alias] = formula.val(model, term)
    return out


def decide(ob, ctx, path):
    """Return a result dict for the obligation on this path."""
    base = _base(ctx, path)
    phi = ob.phi if ob.phi is not None else getattr(ctx, "phi", [])
    res = {"id": ob.id, "kind": ob.kind, "path": path.tag(), "path_cond": path.describe()}
    t0 = time.perf_counter()
    if ob.kind == "sound":
        guard = formula.to_z3(ob.guard)
        clause = formula.to_z3(ob.clause)
        q = base + list(phi) + [guard, z3.Not(clause)]
        verdict, model, _ = formula.solve_shrunk(q, ob.timeout_ms)
        res["status"] = verdict
        res["queries"] = 1
        if verdict == "unsat":
            rv, _, _ = formula.solve(base + list(phi) + [guard], ob.timeout_ms, want_model=False)
            res["queries"] = 2
            res["reach"] = rv
            if rv == "unsat":
                res["status"] = "vacuous"
                if ob.extra.get("vacuous_ok"):
                    res["status"] = "unsat"
                    res["vacuous_by_design"] = True
            elif rv != "sat":
                res["status"] = "unknown"
        elif verdict == "sat":
            params, pins = witness_from_model(model, q, ctx.P)
            res["witness"] = {"params": params, "pins": pins, "alias_pins": alias_values(model, ctx)}
        res["smt_sample"] = z3.And([guard, z3.Not(clause)]).sexpr()[:600]
    elif ob.kind == "complete":
        valid = formula.to_z3(ob.valid)
        if ob.transform is not None:
            phi = ob.transform(list(phi))
        obs_names = {o.decl().name() for o in ob.observables}
        pnames = {t.decl().name() for t in ctx.P.terms.values() if z3.is_expr(t)}
        aux, funcs = formula.aux_of(phi, obs_names, pnames)
        if funcs:
            res["status"] = "unknown"
            res["note"] = f"uninterpreted functions {sorted(funcs)} need an explicit witness"
        else:
            lost = formula.forall(aux, z3.Not(z3.And(list(phi)))) if phi else z3.BoolVal(False)
            q = base + [valid, lost]
            verdict = None
            if ob.twin is not None and aux:
                inst = formula.positional_witness(list(phi), aux, list(ob.twin))
                if inst is not None and formula.solve(base + [valid, z3.Not(z3.And(inst))], min(ob.timeout_ms, 20000), want_model=False)[0] == "unsat":
                    verdict, model = "unsat", None
                    res["positional_witness"] = True
            if verdict is None:
                verdict, model, _ = formula.solve_shrunk(q, ob.timeout_ms, quantified=bool(aux))
            res["status"] = verdict
            res["queries"] = 1
            res["aux"] = len(aux)
            if verdict == "unsat":
                rv, _, _ = formula.solve(base + [valid], ob.timeout_ms, want_model=False)
                res["queries"] = 2
                res["reach"] = rv
                if rv == "unsat":
                    res["status"] = "vacuous"
                    if ob.extra.get("vacuous_ok"):
                        res["status"] = "unsat"
                        res["vacuous_by_design"] = True
                elif rv != "sat":
                    res["status"] = "unknown"
            elif verdict == "sat":
                params, _ = witness_from_model(model, q, ctx.P)
                pins = {o.decl().name(): formula.val(model, o) for o in ob.observables}
                res["witness"] = {"params": params, "pins": pins, "alias_pins": alias_values(model, ctx)}
        res["smt_sample"] = valid.sexpr()[:600]
    elif ob.kind == "custom":
        out = ob.fn(ctx, path)
        res.update(out)
    else:
        raise ValueError(ob.kind)
    res["time_s"] = round(time.perf_counter() - t0, 4)
    return res


def write_replay(prop, module, shape, res, ob):
    os.makedirs(REPLAY_DIR, exist_ok=True)
    desc = {
        "property": prop,
        "module": module,
        "shape": shape.name,
        "obligation": res["id"],
        "kind": res["kind"],
        "path_cond": res.get("path_cond"),
        "replayer": ob.replayer or "symx.harness:replay_schedule",
        "witness": res.get("witness"),
        "extra": ob.extra,
    }
    h = hashlib.sha1(json.dumps([desc["shape"], desc["obligation"], res.get("path")], sort_keys=True).encode()).hexdigest()[:10]
    path = os.path.join(REPLAY_DIR, f"{prop}_{h}.json")
    with open(path, "w") as f:
        json.dump(desc, f, indent=1, sort_keys=True, default=str)
    return path


def run_replay(path, timeout=300):
    """Run the replay in a fresh, unpatched interpreter. 1 = violation confirmed, 0 = not reproduced."""
    env = dict(os.environ)
    env["PYTHONPATH"] = VERIF + os.pathsep + env.get("PYTHONPATH", "")
    try:
        p = subprocess.run([PY, "-B", os.path.join(VERIF, "replay.py"), path], capture_output=True,
                           text=True, timeout=timeout, env=env, cwd=VERIF)
    except subprocess.TimeoutExpired:
        return 2, "replay timeout"
    tail = (p.stdout + p.stderr)[-1500:]
    return p.returncode, tail


def get_shape(module, name, tier="thorough"):
    mod = importlib.import_module(module)
    for t in (tier, "quick"):
        for sh in mod.shapes(t):
            if sh.name == name:
                return sh
    raise KeyError(name)


def pin_expr(consts, pins):
    out = []
    for name, v in pins.items():
        c = consts.get(name)
        if c is None:
            continue
        if z3.is_bool(c) and isinstance(v, bool):
            out.append(c == z3.BoolVal(v))
        elif z3.is_int(c) and isinstance(v, int) and not isinstance(v, bool):
            out.append(c == v)
    return out


def replay_schedule(desc):
    """Generic replay of a schedule-level counterexample through the public API, unpatched:
    build the concrete problem, pin the witness schedule with ConstraintFromExpression, run the real
    SchedulingSolver.solve(), and evaluate the violated clause on the model it returned."""
    import processscheduler as ps

    shape = get_shape(desc["module"], desc["shape"])
    w = desc["witness"]
    P = engine.Params("conc", values=w["params"])
    with quiet() as buf:
        ctx = shape.build(P)
        ctx.P = P
        # pins are expressed over z3 constants by name (z3 constants are global by name and sort);
        # fresh names (x!n) are skipped, they would collide with the fresh names of this build
        pins = []
        for n, v in w["pins"].items():
            if "!" in n:
                continue
            if isinstance(v, bool):
                pins.append(z3.Bool(n) == z3.BoolVal(v))
            elif isinstance(v, int):
                pins.append(z3.Int(n) == v)
        auto_named(ctx)
        named = {a: t for a, t in (getattr(ctx, "named", None) or {}).items() if z3.is_expr(t)}
        pins += pin_expr(named, w.get("alias_pins") or {})
        early = getattr(ctx, "early_solver", None)
        if early is not None:
            # the witness schedule is pinned on the early-constructed solver object itself
            solver = early
            solver.initialize()
            for e in pins:
                solver.append_z3_assertion(e)
        else:
            for i, e in enumerate(pins):
                ps.ConstraintFromExpression(name=f"__pin_{i}", expression=e)
            solver = ps.SchedulingSolver(problem=ctx.problem, **shape.solver_cfg)
        solution = solver.solve()
    engine.reset_z3_globals()
    ctx.solver = solver
    ctx.phi = list(solver._solver.assertions())
    obs = {o.id: o for o in shape.obligations(ctx)}
    ob = obs.get(desc["obligation"])
    if ob is None:
        print("replay: obligation not present at these parameter values")
        return 0
    if desc["kind"] == "sound":
        if not solution:
            print("replay: real solver does not admit the pinned schedule -> not reproduced")
            return 0
        m = solver._model
        # free variables of the specification itself (symbolic instant, period index...) take their witness value
        sysc, _ = formula.constants(ctx.phi)
        specc, _ = formula.constants([formula.to_z3(ob.guard), formula.to_z3(ob.clause)])
        subs = []
        for n, c0 in specc.items():
            if n not in sysc and n in w["pins"]:
                v = w["pins"][n]
                subs.append((c0, z3.BoolVal(v) if isinstance(v, bool) else z3.IntVal(v)))
        gz, cz = formula.to_z3(ob.guard), formula.to_z3(ob.clause)
        if subs:
            gz, cz = z3.substitute(gz, *subs), z3.substitute(cz, *subs)
        g = z3.is_true(m.eval(gz, model_completion=True))
        c = z3.is_true(m.eval(cz, model_completion=True))
        print(f"replay: solve() returned a solution; guard={g} clause={c}")
        print("tasks:", {n: (t.start, t.end, t.duration, t.scheduled) for n, t in solution.tasks.items()})
        print("resources:", {n: r.assignments for n, r in solution.resources.items()})
        print("indicators:", solution.indicators, "horizon:", solution.horizon)
        if g and not c:
            print(f"CONFIRMED: clause {ob.id} is false on a schedule returned by the real solver: {ob.clause}")
            return 1
        return 0
    if desc["kind"] == "complete":
        # the schedule is valid by the reference semantics (evaluated on the pinned ints) ...
        subs = []
        ap = w.get("alias_pins") or {}
        for o in ob.observables:
            n = o.decl().name()
            v = None
            if n in w["pins"]:
                v = w["pins"][n]
            else:
                for alias, term in named.items():  # uid-named observables travel under their alias
                    if term.eq(o) and alias in ap:
                        v = ap[alias]
            if v is not None:
                subs.append((o, z3.BoolVal(v) if isinstance(v, bool) else z3.IntVal(v)))
        valid = z3.simplify(z3.substitute(formula.to_z3(ob.valid), *subs))
        print(f"replay: S_valid on the pinned schedule = {valid}; solve() -> {'solution' if solution else solution}")
        if z3.is_true(valid) and solution is False:
            print(f"CONFIRMED: a schedule valid by the documented semantics is rejected ({ob.id})")
            return 1
        return 0
    print("replay: unknown kind")
    return 2


def grid_points(path, limit, seed=0, extra_base=None):
    """Concrete parameter points of a symbolic path region: one small interior model, every
    parameter at 0 / 1 / -1, and every ordering (<, =, >) of every pair of parameters, as far as
    the path condition and the validity assumptions allow. The symbolic build covers all values at
    once; the points re-run the *unpatched* constructors on plain ints, which covers code that
    tests isinstance(x, int) or truthiness and would treat an injected symbol differently."""
    import random

    ctx = path.out
    P = ctx.P if ctx is not None else path.P
    names = [n for n in P.names if z3.is_expr(P.terms[n])]
    if not names:
        return [{}]
    base = _base(ctx, path) + ([formula.to_z3(x) for x in extra_base] if extra_base else [])
    terms = [P.terms[n] for n in names]
    cands = [[]]
    for t in terms:
        for v in (0, 1, -1):
            cands.append([t == v])
    for i in range(len(terms)):
        for j in range(i + 1, len(terms)):
            cands.append([terms[i] < terms[j]])
            cands.append([terms[i] == terms[j]])
            cands.append([terms[i] > terms[j]])
    rnd = random.Random(seed)
    head, tail = cands[:1 + 3 * len(terms)], cands[1 + 3 * len(terms):]
    rnd.shuffle(tail)
    points, seen = [], set()
    for extra in head + tail:
        if len(points) >= limit:
            break
        small = [z3.And(t >= -12, t <= 40) for t in terms]
        phi = list(getattr(ctx, "phi", []) or [])
        # prefer points at which the (symbolic) constraint system admits a schedule
        for attempt in (base + phi + extra + small, base + phi + extra, base + extra + small, base + extra):
            v, m, _ = formula.solve(attempt, 5000)
            if v == "sat":
                break
        if v != "sat":
            continue
        pt = {n: formula.val(m, P.terms[n]) for n in names}
        key = tuple(sorted(pt.items()))
        if key not in seen:
            seen.add(key)
            points.append(pt)
    return points


def replay_counterexample(prop, module, shape, res, ob, replayed):
    """Replay a counterexample in a fresh interpreter. One confirmed replay per obligation is enough
    (further paths violating the same obligation are recorded but not replayed again); at most three
    attempts are made for an obligation whose counterexamples do not reproduce."""
    state = replayed.setdefault(res["id"], {"confirmed": None, "tries": 0})
    if state["confirmed"] is not None:
        res.update(replay=state["confirmed"], replay_exit=1, confirmed=True, replay_tail="same obligation already confirmed on another path")
        return
    if state["tries"] >= 3:
        res.update(replay=None, replay_exit=0, confirmed=False, replay_tail="not replayed: three earlier counterexamples of this obligation did not reproduce")
        return
    state["tries"] += 1
    rp = write_replay(prop, module, shape, res, ob)
    code, tail = run_replay(rp)
    res.update(replay=rp, replay_exit=code, replay_tail=tail[-600:], confirmed=code == 1)
    if code == 1:
        state["confirmed"] = rp


def grid_phase(shape, path, prop, module, limit, seed, out, replayed, extra_base=None):
    """Decide every obligation again on builds made by the unpatched API at concrete points."""
    for pt in grid_points(path, limit, seed, extra_base):
        try:
            ctx = build_concrete(shape, pt)
        except Exception as e:
            handler = getattr(shape, "on_grid_exception", None)
            if handler is not None and handler(pt, e):
                continue
            out["results"].append({"id": f"{prop}/{shape.name}/grid_build", "kind": "exception", "status": "error",
                                   "path": path.tag(), "note": f"unpatched build raised {type(e).__name__}: {e} at {pt}"[-400:]})
            continue
        if getattr(ctx, "solver", None) is not None and ctx.solver.debug:
            ctx.extra_assume = list(ctx.extra_assume) + tracking_literals(ctx.phi)
        cpath = engine.Path([], [], ctx, None, [])
        out["grid_points"] = out.get("grid_points", 0) + 1
        for ob in shape.obligations(ctx):
            if ob.kind == "custom" and not ob.extra.get("grid", False):
                continue
            try:
                res = decide(ob, ctx, cpath)
            except Exception:
                res = {"id": ob.id, "kind": ob.kind, "status": "error", "path": "grid", "note": traceback.format_exc()[-800:]}
            res["mode"] = "grid"
            res["point"] = pt
            if res["status"] == "vacuous":
                res["status"] = "unsat"  # no schedule at this concrete point: holds trivially there
                res["vacuous_at_point"] = True
            if res["status"] == "sat":
                res["witness"]["params"] = dict(pt)
                replay_counterexample(prop, module, shape, res, ob, replayed)
            out["results"].append(res)


# ---------------------------------------------------------------------------------------------
def run_shape(args):
    """Worker entry: explore one shape, decide its obligations, replay counterexamples."""
    module, tier, index, prop = args
    t0 = time.perf_counter()
    # z3's verbose mode (switched on process-wide by debug=True solvers) writes to fd 2 from C
    try:
        devnull = os.open(os.devnull, os.O_WRONLY)
        os.dup2(devnull, 2)
        os.close(devnull)
    except OSError:
        pass
    out = {"shape": None, "results": [], "paths": 0, "error": None, "functions": [], "explorer_queries": 0}
    try:
        mod = importlib.import_module(module)
        shape = mod.shapes(tier)[index]
        out["shape"] = shape.name
        formula.STATS.update({"queries": 0, "solver_s": 0.0, "sat": 0, "unsat": 0, "unknown": 0})
        formula.XCHECK.update({"done": 0, "agree": 0, "other_unknown": 0, "disagree": []})
        xcheck_tier = tier == "thorough" and os.environ.get("VERIF_XCHECK", "1") != "0"
        _PROFILE.clear()
        ex, paths = build_symbolic(shape, profile=True)
        out["functions"] = sorted(_PROFILE)
        out["paths"] = len(paths)
        out["explorer_queries"] = ex.queries
        out["path_conditions"] = [p.describe() for p in paths][:50]
        replayed = {}
        for path in paths:
            if getattr(path, "aborted", False):
                continue
            if path.exc is not None:
                if getattr(shape, "assumptions", None) and getattr(path, "P", None) is not None:
                    try:
                        pre = [formula.to_z3(x) for x in list(path.assume) + list(path.pc) + list(shape.assumptions(path.P))]
                        if formula.solve(pre, 20000, want_model=False)[0] == "unsat":
                            continue  # the raising path lies outside the shape's input assumptions
                    except KeyError:
                        pass
                handler = getattr(shape, "on_exception", None)
                obs = handler(path) if handler is not None else None
                if obs is None and concretisation_point(path.exc) and getattr(shape, "grid", True) and getattr(path, "P", None) is not None:
                    # the symbol reached code that needs a plain number (z3.IntVal(x), range(x), ...): this path region is
                    # decided at concrete parameter points only, on builds made by the unpatched API
                    before = len(out["results"])
                    extra_base = list(shape.assumptions(path.P)) if getattr(shape, "assumptions", None) else []
                    limit = (getattr(shape, "grid_limit", None) or (6 if tier == "quick" else 24)) * 2
                    grid_phase(shape, path, prop, module, limit, int(os.environ.get("VERIF_SEED", "0") or 0), out, replayed, extra_base)
                    new = out["results"][before:]
                    if new and not any(r["status"] in ("error", "unknown") for r in new):
                        out["results"].append({"id": f"{prop}/{shape.name}/path_decided_at_concrete_points_only", "kind": "exception", "status": "ok",
                                               "path": path.tag(), "path_cond": path.describe(),
                                               "note": f"symbolic execution stopped at a concretisation point ({type(path.exc).__name__}); {len(new)} obligations decided at concrete points of the path region"})
                        continue
                if obs is None:
                    out["results"].append({"id": f"{prop}/{shape.name}/no_exception", "kind": "exception",
                                           "status": "error", "path": path.tag(),
                                           "note": "".join(traceback.format_exception_only(type(path.exc), path.exc))[-400:],
                                           "path_cond": path.describe()})
                    continue
            else:
                ctx = path.out
                if formula.solve(_base(ctx, path), 20000, want_model=False)[0] != "sat":
                    continue  # path infeasible once all assumptions are known
                obs = shape.obligations(ctx)
            for ob in obs:
                ctx = path.out
                try:
                    # thorough tier: the quantifier-free soundness queries of the symbolic phase are re-decided
                    # by a second z3 generation (SMT-LIB dump -> z3 5.1.0)
                    formula.XCHECK["on"] = xcheck_tier and ob.kind == "sound"
                    try:
                        res = decide(ob, ctx, path)
                    finally:
                        formula.XCHECK["on"] = False
                except Exception as e:
                    res = {"id": ob.id, "kind": ob.kind, "status": "error", "path": path.tag(),
                           "note": traceback.format_exc()[-800:]}
                if res["status"] == "sat":
                    replay_counterexample(prop, module, shape, res, ob, replayed)
                out["results"].append(res)
            if path.exc is None and getattr(shape, "grid", True):
                limit = getattr(shape, "grid_limit", None) or (6 if tier == "quick" else 24)
                grid_phase(shape, path, prop, module, limit, int(os.environ.get("VERIF_SEED", "0") or 0), out, replayed)
        out["stats"] = dict(formula.STATS)
        out["xcheck"] = {k: (v if k != "disagree" else list(v)[:5]) for k, v in formula.XCHECK.items() if k not in ("on", "bin")}
        for d in formula.XCHECK["disagree"][:3]:
            out["results"].append({"id": f"{prop}/{shape.name}/second_solver_agrees", "kind": "xcheck", "status": "error",
                                   "note": f"z3 4.12.6 says {d[0]}, z3 5.1.0 says {d[1]} on {d[2][:200]}"})
    except Exception:
        out["error"] = traceback.format_exc()[-1500:]
    out["wall_s"] = round(time.perf_counter() - t0, 3)
    return out


def load_known():
    p = os.path.join(VERIF, "known_findings.json")
    if not os.path.exists(p):
        return []
    with open(p) as f:
        return json.load(f)


def match_known(known, prop, oid):
    for k in known:
        if k.get("property") == prop and k.get("status") == "known" and fnmatch.fnmatchcase(oid, k["obligation"]):
            return k
    return None


def run_property(prop, module, tier, level, assumptions, trusted=None, extra_cov=None, nproc=None,
                 post=None):
    """Run every shape of a check module in parallel, triage, print verdict lines, write evidence."""
    t0 = time.time()
    seed = int(os.environ.get("VERIF_SEED", "0") or 0)
    mod = importlib.import_module(module)
    all_shapes = mod.shapes(tier)
    n = len(all_shapes)
    nproc = nproc or min(int(os.environ.get("VERIF_NPROC", "16")), max(1, n))
    only = os.environ.get("VERIF_ONLY")  # development aid: substring filter on shape names; no evidence is written
    jobs = [(module, tier, i, prop) for i in range(n) if not only or only in all_shapes[i].name]
    ctxm = mp.get_context("spawn")
    with ctxm.Pool(nproc, maxtasksperchild=20) as pool:
        outs = pool.map(run_shape, jobs, chunksize=1)
    known = load_known()
    violations, known_hits, inconclusive = [], {}, []
    counts = {"unsat": 0, "sat": 0, "unknown": 0, "vacuous": 0, "error": 0, "ok": 0}
    functions = set()
    queries = 0
    solver_s = 0.0
    programs = 0
    replays = 0
    samples = []
    n_ob = 0
    for o in outs:
        if o["error"]:
            inconclusive.append(f"shape#{o['shape']}: {o['error'][-300:]}")
            continue
        functions.update(o["functions"])
        programs += o["paths"]
        st = o.get("stats", {})
        queries += st.get("queries", 0) + o.get("explorer_queries", 0)
        solver_s += st.get("solver_s", 0.0)
        # an obligation that is vacuous on one path of a shape (the path condition already decides its guard) is not
        # a harness problem as long as the same obligation is decided non-vacuously on another path of that shape
        decided = {r["id"] for r in o["results"] if r["status"] in ("unsat", "sat") and not r.get("vacuous_by_design")}
        for r in o["results"]:
            if r["status"] == "vacuous" and r["id"] in decided:
                r["status"] = "unsat"
                r["vacuous_on_this_path_only"] = True
            n_ob += 1
            counts[r["status"]] = counts.get(r["status"], 0) + 1
            if len(samples) < 6 and r.get("smt_sample") and (n_ob % 7 == 1):
                samples.append({"obligation": r["id"], "shape": o["shape"], "path": r.get("path_cond"),
                                "negated_goal": r["smt_sample"], "verdict": r["status"]})
            if r["status"] in ("unsat", "ok"):
                continue
            if r["status"] == "sat":
                replays += 1
                if r.get("confirmed"):
                    k = match_known(known, prop, r["id"])
                    if k:
                        known_hits.setdefault(r["id"], (k, r))
                    else:
                        violations.append(r)
                else:
                    inconclusive.append(f"{r['id']}: counterexample did not reproduce (exit {r.get('replay_exit')}): {r.get('replay_tail', '')[-300:]}")
            else:
                inconclusive.append(f"{r['id']}: {r['status']} {r.get('note', '')[-300:]} path={r.get('path_cond')}")
    if post is not None:
        post(outs, violations, inconclusive)
    for oid, (k, r) in sorted(known_hits.items()):
        print(f"KNOWN-FINDING: property={prop} {oid}: {k['what']}")
    seen = set()
    for r in violations:
        if r["id"] in seen:
            continue
        seen.add(r["id"])
        print(f"VIOLATION property={prop} replay={r['replay']}  obligation={r['id']} path={r.get('path_cond')}")
        print("   witness:", json.dumps(r.get("witness"), default=str)[:500])
    for msg in inconclusive[:30]:
        print(f"INCONCLUSIVE property={prop} {msg}")
    wall = time.time() - t0
    if not samples:
        for o in outs:
            for r in o["results"][:1]:
                samples.append({"obligation": r["id"], "shape": o["shape"], "verdict": r["status"]})
        samples = samples[:5] or [{"note": "no obligations"}]
    # obligations of the concrete layers: the real code run with the real z3 / matplotlib / pandas and judged by an
    # independent oracle (trace validation against the implementation)
    concrete_markers = ("/enumeration/", "/concrete/", "/real_z3/", "/agg/", "/serialisers/", "/grid/", "/rule/", "/registry/")
    concrete_runs = sum(1 for o in outs for r in o["results"] if any(m in r["id"] for m in concrete_markers) and r["status"] in ("unsat", "ok"))
    cov = {
        "programs": programs,
        "disagreements_checked": replays,
        "states": programs,
        "transitions": queries,
        "traces_validated_against_impl": replays + concrete_runs,
        "concrete_layer_runs": concrete_runs,
        "counterexample_replays": replays,
        "samples": samples,
        "evaluations": n_ob,
        "distinct_nontrivial": len({r["id"] for o in outs for r in o["results"] if r["status"] in ("unsat", "sat", "ok")}),
        "rule": "one evaluation = one solver-decided obligation (negated goal over symbolic parameters and schedules) on one symbolic path of one harness shape; distinct = distinct obligation ids with a definite verdict",
        "shapes": n,
        "grid_points": sum(o.get("grid_points", 0) for o in outs),
        "symbolic_paths": programs,
        "obligations": n_ob,
        "verdicts": counts,
        "solver_queries": queries,
        "second_solver": {"queries": sum(o.get("xcheck", {}).get("done", 0) for o in outs),
                          "agree": sum(o.get("xcheck", {}).get("agree", 0) for o in outs),
                          "second_solver_unknown": sum(o.get("xcheck", {}).get("other_unknown", 0) for o in outs),
                          "disagreements": sum(len(o.get("xcheck", {}).get("disagree", [])) for o in outs),
                          "what": "thorough tier: SMT-LIB dump of the symbolic-phase soundness queries re-decided by the z3 5.1.0 binary"},
        "solver_time_s": round(solver_s, 3),
        "functions_executed_symbolically": sorted(functions),
        "known_findings_hit": sorted(known_hits),
        "inconclusive": inconclusive[:20],
        "explanation": "solver-based checking of the real code: real constructors + initialize() executed on z3-term parameters, obligations decided by z3 over all parameter values and all admitted schedules within the stated shape bounds",
    }
    if extra_cov:
        cov.update(extra_cov(outs) if callable(extra_cov) else extra_cov)
    ev = {
        "property_id": prop,
        "tier": tier,
        "seed": seed,
        "level": level,
        "coverage": cov,
        "assumptions": assumptions,
        "wall_s": round(wall, 2),
        "violations": len(seen),
    }
    if not only and not os.environ.get("VERIF_NO_EVIDENCE"):  # (seed / mutation runs on shadow copies must not rewrite the evidence)
        os.makedirs(EVIDENCE_DIR, exist_ok=True)
        with open(os.path.join(EVIDENCE_DIR, f"{prop}.json"), "w") as f:
            json.dump(ev, f, indent=1, default=str)
    print(f"{prop} [{tier}] shapes={n} paths={programs} obligations={n_ob} verdicts={counts} "
          f"known={len(known_hits)} violations={len(seen)} inconclusive={len(inconclusive)} "
          f"solver_s={solver_s:.1f} wall_s={wall:.1f}")
    if seen:
        return EXIT_VIOLATION
    if inconclusive:
        return EXIT_INCONCLUSIVE
    return EXIT_OK
