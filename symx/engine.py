"""symx engine: symbolic execution of ProcessScheduler's Python by z3-term injection.

* integer parameters are injected as z3 Int constants (class Sym + wrapper around
  BaseModelWithJson.__init__: the real pydantic validation runs on a placeholder, the field is then
  overwritten with the symbol before any subclass body -- the encoders -- runs);
* Python-level branches on a symbol land in z3.BoolRef.__bool__, which is replaced by a forking
  decision procedure (DFS by deterministic re-execution with a decision prefix);
* all patches live in the harness process only and only inside `with patched(explorer):`.
"""
import contextlib
import time
import typing

import annotated_types as at
import z3

BIG_TIMEOUT = 4294967295


def reset_z3_globals():
    """SchedulingSolver.__init__ sets process-wide z3 params (timeout 20 s, verbosity, unsat_core,
    threads, seeds). Undo them so that harness queries do not inherit them."""
    z3.set_option("timeout", BIG_TIMEOUT)
    z3.set_option("verbose", 0)
    z3.set_option(unsat_core=False)
    z3.set_option("parallel.enable", False)
    z3.set_option("sat.threads", 1)
    z3.set_option("smt.threads", 1)
    z3.set_option("sat.random_seed", 0)
    z3.set_option("smt.random_seed", 0)
    z3.set_option("smt.arith.random_initial_value", False)


class Sym:
    """A symbolic value for a pydantic-validated field: `placeholder` passes the real validation,
    `value` (a z3 term, or a container holding z3 terms) is what the encoder bodies will see."""

    __slots__ = ("value", "placeholder")

    def __init__(self, value, placeholder):
        self.value = value
        self.placeholder = placeholder

    def __repr__(self):
        return f"Sym({self.value})"


class PathAbort(BaseException):
    """Raised to abandon the current path (bound reached, infeasible stub trace...)."""


class Inconclusive(Exception):
    pass


def _split(v):
    """Return (placeholder_version, value_version, has_sym) for a possibly nested container."""
    if isinstance(v, Sym):
        return v.placeholder, v.value, True
    if isinstance(v, (list, tuple)):
        parts = [_split(x) for x in v]
        if any(p[2] for p in parts):
            t = type(v)
            return t(p[0] for p in parts), t(p[1] for p in parts), True
        return v, v, False
    if isinstance(v, dict):
        items = [(_split(k), _split(x)) for k, x in v.items()]
        if any(k[2] or x[2] for k, x in items):
            return ({k[0]: x[0] for k, x in items}, {k[1]: x[1] for k, x in items}, True)
        return v, v, False
    return v, v, False


def _collect_int_constraints(annotation, metadata, out):
    for m in metadata or ():
        if isinstance(m, (at.Gt, at.Ge, at.Lt, at.Le)):
            out.append(m)
    origin = typing.get_origin(annotation)
    if origin is typing.Annotated:
        args = typing.get_args(annotation)
        _collect_int_constraints(args[0], args[1:], out)
    elif origin is not None:
        for a in typing.get_args(annotation):
            if a is type(None) or a is Ellipsis:
                continue
            _collect_int_constraints(a, (), out)


def field_int_constraints(cls, field):
    """Declared numeric constraints (Gt/Ge/Lt/Le) on the int leaves of a pydantic field, read from
    the real class at run time."""
    fi = cls.model_fields[field]
    out = []
    _collect_int_constraints(fi.annotation, fi.metadata, out)
    return out


def _leaves(v):
    if z3.is_expr(v):
        yield v
    elif isinstance(v, (list, tuple)):
        for x in v:
            yield from _leaves(x)
    elif isinstance(v, dict):
        for k, x in v.items():
            yield from _leaves(k)
            yield from _leaves(x)


def constraint_to_z3(c, term):
    if isinstance(c, at.Gt):
        return term > c.gt
    if isinstance(c, at.Ge):
        return term >= c.ge
    if isinstance(c, at.Lt):
        return term < c.lt
    if isinstance(c, at.Le):
        return term <= c.le
    raise TypeError(c)


class Decision:
    __slots__ = ("cond", "value", "forced")

    def __init__(self, cond, value, forced):
        self.cond, self.value, self.forced = cond, value, forced


class Path:
    def __init__(self, decisions, assume, out, exc, log):
        self.decisions = decisions
        self.assume = assume
        self.out = out
        self.exc = exc
        self.log = log

    @property
    def pc(self):
        return [d.cond if d.value else z3.Not(d.cond) for d in self.decisions]

    def tag(self):
        return "".join("T" if d.value else "F" for d in self.decisions if not d.forced) or "-"

    def describe(self):
        return [f"{'' if d.value else 'not '}{d.cond}" for d in self.decisions if not d.forced]


class Explorer:
    """Forking explorer. `run(fn)` executes fn() once per feasible decision sequence."""

    def __init__(self, all_sym=False, context=None, max_paths=512, choice_limit=None):
        self.all_sym = all_sym
        self.context = list(context or [])
        self.max_paths = max_paths
        self.injected = set()  # z3 ast ids of injected constants
        self.injected_terms = []
        self.assume = []
        self.decisions = []
        self.prefix = []
        self.pending = []
        self.solver_time = 0.0
        self.queries = 0
        self.log = []
        self.choice_limit = choice_limit

    # -- symbols ---------------------------------------------------------------------------
    def fresh(self, term, *assumptions):
        tid = term.get_id()
        if tid not in self.injected:
            self.injected.add(tid)
            self.injected_terms.append(term)
        for a in assumptions:
            self.assume.append(a)
        return term

    def add_assumption(self, a):
        self.assume.append(a)

    def mentions_injected(self, expr):
        seen = set()
        todo = [expr]
        while todo:
            e = todo.pop()
            i = e.get_id()
            if i in seen:
                continue
            seen.add(i)
            if i in self.injected:
                return True
            if z3.is_app(e):
                todo.extend(e.children())
            elif z3.is_quantifier(e):
                todo.append(e.body())
        return False

    # -- decisions -------------------------------------------------------------------------
    def _feasible(self, extra):
        s = z3.Solver()
        s.set("timeout", 20000)
        s.add(self.context)
        s.add(self.assume)
        for d in self.decisions:
            s.add(d.cond if d.value else z3.Not(d.cond))
        s.add(extra)
        t0 = time.perf_counter()
        r = s.check()
        self.solver_time += time.perf_counter() - t0
        self.queries += 1
        if r == z3.unknown:
            raise Inconclusive(f"feasibility unknown for {extra}")
        return r == z3.sat

    def decide(self, cond):
        idx = len(self.decisions)
        if idx < len(self.prefix):
            value, forced = self.prefix[idx]
            self.decisions.append(Decision(cond, value, forced))
            return value
        can_t = self._feasible(cond)
        can_f = self._feasible(z3.Not(cond))
        if can_t and can_f:
            self.pending.append([(d.value, d.forced) for d in self.decisions] + [(False, False)])
            self.decisions.append(Decision(cond, True, False))
            return True
        if not can_t and not can_f:
            raise PathAbort("infeasible path")
        self.decisions.append(Decision(cond, can_t, True))
        return can_t

    def choose(self, n, label="choice"):
        """Explorer choice among n alternatives (0..n-1), encoded with fresh Boolean decisions."""
        for k in range(n - 1):
            b = z3.Bool(f"__choice_{label}_{len(self.decisions)}")
            idx = len(self.decisions)
            if idx < len(self.prefix):
                value, forced = self.prefix[idx]
            else:
                value, forced = True, False
                self.pending.append([(d.value, d.forced) for d in self.decisions] + [(False, False)])
            self.decisions.append(Decision(b, value, forced))
            if value:
                return k
        return n - 1

    # -- driver ----------------------------------------------------------------------------
    def run(self, fn):
        paths = []
        stack = [[]]
        while stack:
            if len(paths) >= self.max_paths:
                raise Inconclusive(f"more than {self.max_paths} paths")
            self.prefix = stack.pop()
            self.decisions = []
            self.pending = []
            self.assume = []
            self.injected = set()
            self.injected_terms = []
            self.log = []
            out = exc = None
            aborted = False
            with patched(self):
                try:
                    out = fn()
                except PathAbort as e:
                    aborted = True
                    exc = e
                except Inconclusive:
                    raise
                except Exception as e:  # the real code raised: this is an outcome
                    exc = e
            reset_z3_globals()
            stack.extend(self.pending)
            p = Path(list(self.decisions), list(self.assume), out, exc, list(self.log))
            p.aborted = aborted
            p.injected_terms = list(self.injected_terms)
            p.P = getattr(self, "cur_P", None)
            paths.append(p)
        return paths


CUR = None  # the active explorer

_orig_bool = z3.BoolRef.__bool__


def _sym_bool(self):
    if z3.is_true(self):
        return True
    if z3.is_false(self):
        return False
    ex = CUR
    if ex is not None and (ex.all_sym or ex.mentions_injected(self)):
        return ex.decide(self)
    return _orig_bool(self)


def _sym_arith_bool(self):
    """Truthiness of an arithmetic term (`if self.lower_bound:`): fork on term != 0."""
    ex = CUR
    if ex is not None and (ex.all_sym or ex.mentions_injected(self)):
        return ex.decide(self != 0)
    return True


def _make_init_wrapper(orig_init):
    def _init(self, **data):
        ex = CUR
        over = {}
        if ex is not None:
            for k, v in list(data.items()):
                ph, val, has = _split(v)
                if has:
                    over[k] = val
                    data[k] = ph
        orig_init(self, **data)
        for k, val in over.items():
            cls = type(self)
            if k in cls.model_fields:
                cons = field_int_constraints(cls, k)
                for leaf in _leaves(val):
                    if z3.is_int(leaf) and z3.is_const(leaf) and leaf.decl().kind() == z3.Z3_OP_UNINTERPRETED:
                        ex.fresh(leaf, *[constraint_to_z3(c, leaf) for c in cons])
            setattr(self, k, val)

    return _init


@contextlib.contextmanager
def patched(explorer):
    """Install the harness patches for the duration of one symbolic run."""
    global CUR
    import processscheduler.base as psbase

    prev = CUR
    CUR = explorer
    orig_init = psbase.BaseModelWithJson.__init__
    z3.BoolRef.__bool__ = _sym_bool
    z3.BoolRef.__nonzero__ = _sym_bool
    z3.ArithRef.__bool__ = _sym_arith_bool
    psbase.BaseModelWithJson.__init__ = _make_init_wrapper(orig_init)
    try:
        yield explorer
    finally:
        CUR = prev
        z3.BoolRef.__bool__ = _orig_bool
        z3.BoolRef.__nonzero__ = _orig_bool
        del z3.ArithRef.__bool__
        psbase.BaseModelWithJson.__init__ = orig_init


class Params:
    """Parameter provider handed to shape builders. In 'sym' mode integers are fresh z3 constants
    (wrapped in Sym for pydantic fields); in 'conc' mode they are the plain ints of a witness."""

    def __init__(self, mode="sym", values=None, explorer=None):
        self.mode = mode
        self.values = dict(values or {})
        self.ex = explorer
        self.names = []
        self.terms = {}

    def _term(self, name, lo, hi):
        t = z3.Int("p_" + name)
        assumptions = []
        if lo is not None:
            assumptions.append(t >= lo)
        if hi is not None:
            assumptions.append(t <= hi)
        if self.ex is not None:
            self.ex.fresh(t, *assumptions)
        if name not in self.terms:
            self.names.append(name)
        self.terms[name] = t
        return t

    def int(self, name, ph=1, lo=None, hi=None):
        """Value for a pydantic-validated int field."""
        if self.mode == "conc":
            return self._conc(name, ph)
        return Sym(self._term(name, lo, hi), ph)

    def term(self, name, ph=1, lo=None, hi=None):
        """Value for a plain Python argument or a field that accepts z3 terms directly."""
        if self.mode == "conc":
            return self._conc(name, ph)
        return self._term(name, lo, hi)

    def v(self, name):
        """The z3 term / concrete value previously created under `name` (for specifications)."""
        return self.terms[name]

    def _conc(self, name, ph):
        val = self.values.get(name, ph)
        if name not in self.terms:
            self.names.append(name)
        self.terms[name] = val
        return val


def sym_container(value_with_syms):
    """Helper: wrap a container holding Sym leaves (lists/tuples/dicts) - _split does the work."""
    return value_with_syms
