"""Formula utilities: constants, deciding queries, witness shrinking, quantified halves."""
import time

import z3

STATS = {"queries": 0, "solver_s": 0.0, "sat": 0, "unsat": 0, "unknown": 0}


def walk(exprs):
    seen = set()
    todo = list(exprs)
    while todo:
        e = todo.pop()
        i = e.get_id()
        if i in seen:
            continue
        seen.add(i)
        yield e
        if z3.is_app(e):
            todo.extend(e.children())
        elif z3.is_quantifier(e):
            todo.append(e.body())


def constants(exprs):
    """name -> constant for every uninterpreted 0-ary symbol; also returns function decls."""
    consts = {}
    funcs = {}
    for e in walk(exprs):
        if z3.is_app(e) and e.decl().kind() == z3.Z3_OP_UNINTERPRETED:
            if e.num_args() == 0:
                consts[e.decl().name()] = e
            else:
                funcs[e.decl().name()] = e.decl()
    return consts, funcs


def ordered_constants(exprs):
    """uninterpreted constants in order of first occurrence (pre-order, left to right, assertion by assertion)"""
    out, seen, seen_c = [], set(), set()
    for root in exprs:
        todo = [root]
        while todo:
            e = todo.pop()
            i = e.get_id()
            if i in seen:
                continue
            seen.add(i)
            if z3.is_app(e):
                if e.num_args() == 0 and e.decl().kind() == z3.Z3_OP_UNINTERPRETED:
                    if e.decl().name() not in seen_c:
                        seen_c.add(e.decl().name())
                        out.append(e)
                else:
                    todo.extend(reversed(e.children()))
            elif z3.is_quantifier(e):
                todo.append(e.body())
    return out


def positional_witness(phi, aux, target):
    """Explicit witness for `exists aux. phi` when `target` was produced by the same code: the k-th private
    constant of phi (first-occurrence order) is instantiated with the k-th private constant of target.
    Returns phi with the substitution applied, or None when the two private lists do not line up.
    A wrong guess can only make the instantiated query sat; callers then fall back to the quantified query."""
    aux_names = {a.decl().name() for a in aux}
    mine = [c for c in ordered_constants(phi) if c.decl().name() in aux_names]
    shared = {c.decl().name() for c in ordered_constants(phi)} - aux_names
    theirs = [c for c in ordered_constants(target) if c.decl().name() not in shared]
    if len(mine) != len(theirs) or any(a.sort() != b.sort() for a, b in zip(mine, theirs)):
        return None
    sub = list(zip(mine, theirs))
    return [z3.substitute(a, *sub) for a in phi] if sub else list(phi)


XCHECK = {"on": False, "bin": "z3-new", "done": 0, "agree": 0, "other_unknown": 0, "disagree": []}


def cross_check(solver, verdict):
    """Second, independent z3 generation (5.1.0 binary) re-decides the SMT-LIB dump of a query.
    A definite disagreement is reported; unknown/timeouts of the second solver are only counted."""
    import subprocess

    try:
        text = solver.to_smt2()
        p = subprocess.run([XCHECK["bin"], "-in", "-T:20"], input=text, capture_output=True, text=True, timeout=40)
        out = (p.stdout or "").strip().splitlines()
        ans = out[0].strip() if out else "error"
    except Exception as e:  # noqa
        ans = "error"
    XCHECK["done"] += 1
    if "(error" in (p.stdout if "p" in dir() else ""):
        ans = "error"
    if ans == verdict:
        XCHECK["agree"] += 1
    elif ans in ("sat", "unsat"):
        XCHECK["disagree"].append((verdict, ans, text[:300]))
    else:
        XCHECK["other_unknown"] += 1


def solve(assertions, timeout_ms=60000, want_model=True):
    s = z3.Solver()
    s.set("timeout", timeout_ms)
    s.add(assertions)
    t0 = time.perf_counter()
    r = s.check()
    dt = time.perf_counter() - t0
    STATS["queries"] += 1
    STATS["solver_s"] += dt
    STATS[str(r)] += 1
    if XCHECK["on"] and r != z3.unknown:
        cross_check(s, str(r))
    if r == z3.sat:
        return "sat", (s.model() if want_model else None), dt
    return str(r), None, dt


def solve_quantified(assertions, timeout_ms=60000, want_model=True):
    """Quantified queries: plain z3 (MBQI) first, then quantifier elimination front ends. The first
    definite verdict wins; `unknown` only if every route is inconclusive."""
    routes = [lambda: z3.Then("qe2", "smt").solver(), lambda: z3.Solver(), lambda: z3.Then("qe", "smt").solver()]
    total = 0.0
    # short slices first (one of the routes is usually immediate), then the full budget
    for budget in (min(4000, timeout_ms), timeout_ms):
        for mk in routes:
            try:
                s = mk()
                s.set("timeout", budget)
                s.add(assertions)
                t0 = time.perf_counter()
                r = s.check()
                dt = time.perf_counter() - t0
            except z3.Z3Exception:
                continue
            total += dt
            STATS["queries"] += 1
            STATS["solver_s"] += dt
            STATS[str(r)] += 1
            if r == z3.sat:
                return "sat", (s.model() if want_model else None), total
            if r == z3.unsat:
                return "unsat", None, total
        if budget == timeout_ms:
            break
    return "unknown", None, total


def solve_shrunk(assertions, timeout_ms=60000, quantified=False):
    if quantified:
        verdict, model, dt = solve_quantified(assertions, timeout_ms)
        if verdict != "sat":
            return verdict, model, dt
        consts, _ = constants(assertions)
        ints = [c for c in consts.values() if z3.is_int(c)]
        for bound in (10, 100):
            extra = [z3.And(c >= -bound, c <= bound) for c in ints]
            v2, m2, dt2 = solve_quantified(list(assertions) + extra, min(timeout_ms, 10000))
            dt += dt2
            if v2 == "sat":
                return "sat", m2, dt
        return verdict, model, dt
    return _solve_shrunk_qf(assertions, timeout_ms)


def _solve_shrunk_qf(assertions, timeout_ms=60000):
    """Decide `assertions`; on sat, look for a small witness (|ints| <= 10, 100, 1000) first.
    The verdict is the unbounded one; bounding is only used to pick the witness."""
    verdict, model, dt = solve(assertions, timeout_ms)
    if verdict != "sat":
        return verdict, model, dt
    consts, _ = constants(assertions)
    ints = [c for c in consts.values() if z3.is_int(c)]
    for bound in (10, 100, 1000):
        extra = [z3.And(c >= -bound, c <= bound) for c in ints]
        v2, m2, dt2 = solve(list(assertions) + extra, min(timeout_ms, 10000))
        dt += dt2
        if v2 == "sat":
            return "sat", m2, dt
    return verdict, model, dt


def val(model, term):
    v = model.eval(term, model_completion=True)
    if z3.is_int_value(v):
        return v.as_long()
    if z3.is_true(v):
        return True
    if z3.is_false(v):
        return False
    if z3.is_rational_value(v):
        return float(v.numerator_as_long()) / float(v.denominator_as_long())
    return str(v)


def model_dict(model, consts):
    out = {}
    for name, c in consts.items():
        if z3.is_int(c) or z3.is_bool(c):
            out[name] = val(model, c)
    return out


def exists(vars_, body):
    vars_ = list(vars_)
    return z3.Exists(vars_, body) if vars_ else body


def forall(vars_, body):
    vars_ = list(vars_)
    return z3.ForAll(vars_, body) if vars_ else body


def aux_of(phi, observable_names, param_names=()):
    """Constants of phi that are neither observables nor parameters (to be quantified)."""
    consts, funcs = constants(phi)
    keep = set(observable_names) | set(param_names)
    aux = [c for n, c in consts.items() if n not in keep]
    return aux, funcs


def to_z3(x):
    if isinstance(x, bool):
        return z3.BoolVal(x)
    if isinstance(x, int):
        return z3.IntVal(x)
    return x


def And(*xs):
    xs = [to_z3(x) for x in (xs[0] if len(xs) == 1 and isinstance(xs[0], (list, tuple)) else xs)]
    if not xs:
        return z3.BoolVal(True)
    return z3.And(xs) if len(xs) > 1 else xs[0]


def Or(*xs):
    xs = [to_z3(x) for x in (xs[0] if len(xs) == 1 and isinstance(xs[0], (list, tuple)) else xs)]
    if not xs:
        return z3.BoolVal(False)
    return z3.Or(xs) if len(xs) > 1 else xs[0]


def Not(x):
    return z3.Not(to_z3(x))


def Implies(a, b):
    return z3.Implies(to_z3(a), to_z3(b))


def Sum(xs):
    xs = [to_z3(x) for x in xs]
    if not xs:
        return z3.IntVal(0)
    return z3.Sum(xs) if len(xs) > 1 else xs[0]


def b2i(b):
    return z3.If(to_z3(b), 1, 0)


def zmax(a, b):
    a, b = to_z3(a), to_z3(b)
    return z3.If(a >= b, a, b)


def zmin(a, b):
    a, b = to_z3(a), to_z3(b)
    return z3.If(a <= b, a, b)
