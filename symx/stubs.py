"""Nondeterministic environment stubs under their documented contract (DESIGN 2.4).

StubSolver stands for z3.Solver / z3.Optimize / z3.SolverFor as seen by processscheduler.solver: it
records every call; check() is a 3-way explorer choice; a model hands out fresh symbols for the
values it is asked for (so that the control code's branches on them fork); the contract
"sat => the model satisfies the stack" is added to the explorer's assumptions as it arises."""
import contextlib

import z3

from symx import engine, formula

SAT, UNSAT, UNKNOWN = z3.sat, z3.unsat, z3.unknown


def rename_problem_constants(exprs, suffix, keep_prefixes=("p_", "m@", "__choice", "asst_")):
    """Copy of exprs in which every problem constant c is replaced by c@suffix (one copy per model)."""
    consts, _ = formula.constants(exprs)
    subs = []
    mapping = {}
    for name, c in consts.items():
        if name.startswith(keep_prefixes):
            continue
        if z3.is_int(c):
            n = z3.Int(f"m@{suffix}@{name}")
        elif z3.is_bool(c):
            n = z3.Bool(f"m@{suffix}@{name}")
        else:
            continue
        subs.append((c, n))
        mapping[name] = n
    return [z3.substitute(e, *subs) for e in exprs] if subs else list(exprs), mapping


class SymValue:
    """What model[var] returns: .as_long() is a fresh symbol; str() of a Boolean value is an explorer
    choice (the library stringifies Booleans: f"{model[b]}" == "True")."""

    def __init__(self, model, var):
        self.model, self.var = model, var

    def as_long(self):
        return self.model.value(self.var)

    def _bool(self):
        return self.model.bool_value(self.var)

    def __str__(self):
        if z3.is_bool(self.var):
            return "True" if self._bool() else "False"
        return str(self.model.value(self.var))

    __repr__ = __str__

    def __format__(self, spec):
        return str(self)


class EvalValue:
    """what model.eval(expr) returns: the value of the expression in the model, as a term"""

    def __init__(self, term):
        self.term = term

    def as_long(self):
        return self.term

    def __str__(self):
        return str(self.term)


class SymModel:
    def __init__(self, solver, index, snapshot):
        self.solver, self.index, self.snapshot = solver, index, snapshot
        self.ex = solver.ex
        self.values = {}
        self.bools = {}
        self.queried = []
        # contract: the model satisfies every assertion on the stack at the time of check()
        renamed, self.mapping = rename_problem_constants(snapshot, str(index))
        self.fact = formula.And(renamed) if renamed else z3.BoolVal(True)
        self.ex.add_assumption(self.fact)

    def _sym(self, var):
        name = var.decl().name()
        if name in self.mapping:
            return self.mapping[name]
        if name.startswith(("p_", "m@", "__choice", "asst_")):
            return var  # a parameter of the problem (or a symbol of the harness), not a variable of the model
        # a variable the stack does not mention: unconstrained
        s = z3.Bool(f"m@{self.index}@{name}") if z3.is_bool(var) else z3.Int(f"m@{self.index}@{name}")
        self.mapping[name] = s
        return s

    def value(self, var):
        if not z3.is_expr(var):
            raise z3.Z3Exception("model[...] on a non-expression")
        s = self._sym(var)
        self.ex.fresh(s)
        key = var.decl().name()
        if key not in self.values:
            self.values[key] = s
            self.queried.append(key)
        return s

    def bool_value(self, var):
        key = var.decl().name()
        if key not in self.bools:
            s = self._sym(var)
            self.ex.fresh(s)
            self.bools[key] = bool(self.ex.decide(s))
            self.queried.append(key)
        return self.bools[key]

    def __getitem__(self, var):
        if not z3.is_expr(var):
            # model[True] etc.: z3 would index declarations; nothing sensible to return
            raise z3.Z3Exception(f"model index {var!r} is not a z3 expression")
        return SymValue(self, var)

    def eval(self, e, model_completion=False):
        subs = []
        consts, _ = formula.constants([e])
        for n, c in consts.items():
            subs.append((c, self._sym(c)))
        return EvalValue(z3.substitute(e, *subs) if subs else e)

    def decls(self):
        return []

    def __bool__(self):
        return True

    def __len__(self):
        return 1


class IdModel(SymModel):
    """model[var] is var itself (the schedule stays symbolic); used with phi_real as context."""

    def __init__(self, ex):
        self.ex = ex
        self.values, self.bools, self.queried, self.mapping = {}, {}, [], {}
        self.index = "id"

    def _sym(self, var):
        return var


class StubSolver:
    def __init__(self, ex, kind, max_checks=6, script=None, logic=None, core_mode="choice"):
        self.ex, self.kind, self.logic = ex, kind, logic
        self.core_mode = core_mode
        self.frames = [[]]
        self.tracked = {}
        self.objectives = []
        self.options = {}
        self.calls = []  # (op, payload)
        self.checks = []  # dicts: verdict, snapshot, depth, model
        self.max_checks = max_checks
        self.script = script  # optional fixed verdict list
        self.models = []

    # -- z3 API used by processscheduler.solver ---------------------------------------------------
    def set(self, *a, **kw):
        self.options.update(kw)
        self.calls.append(("set", kw or a))

    def add(self, *args):
        for a in args:
            if isinstance(a, (list, tuple)):
                for x in a:
                    self.frames[-1].append(formula.to_z3(x))
            else:
                self.frames[-1].append(formula.to_z3(a))
        self.calls.append(("add", len(self.frames)))

    def assert_and_track(self, a, name):
        lit = z3.Bool(name) if isinstance(name, str) else name
        self.tracked[str(lit)] = a
        self.frames[-1].append(z3.Implies(lit, a))
        self.calls.append(("assert_and_track", str(lit)))

    def push(self):
        self.frames.append([])
        self.calls.append(("push", len(self.frames)))

    def pop(self, n=1):
        for _ in range(n):
            if len(self.frames) <= 1:
                raise z3.Z3Exception("pop on empty stack")
            self.frames.pop()
        self.calls.append(("pop", len(self.frames)))

    def assertions(self):
        return [a for f in self.frames for a in f]

    def minimize(self, t):
        self.objectives.append(("minimize", t))
        self.calls.append(("minimize", t))

    def maximize(self, t):
        self.objectives.append(("maximize", t))
        self.calls.append(("maximize", t))

    def check(self, *assumptions):
        n = len(self.checks)
        if n >= self.max_checks:
            raise engine.PathAbort("bound on the number of check() calls reached")
        if self.script is not None and n < len(self.script):
            verdict = self.script[n]
        else:
            verdict = (SAT, UNSAT, UNKNOWN)[self.ex.choose(3, "verdict")]
        rec = {"verdict": verdict, "snapshot": self.assertions(), "depth": len(self.frames), "model": None,
               "frames": [list(f) for f in self.frames]}
        self.checks.append(rec)
        self.calls.append(("check", str(verdict)))
        if verdict == SAT:
            m = SymModel(self, len(self.models), rec["snapshot"])
            self.models.append(m)
            rec["model"] = m
        return verdict

    def model(self):
        if not self.checks or self.checks[-1]["verdict"] != SAT:
            raise z3.Z3Exception("model is not available")
        self.calls.append(("model", self.checks[-1]["model"].index))
        return self.checks[-1]["model"]

    def reason_unknown(self):
        return "stub: unknown"

    def unsat_core(self):
        if not self.checks or self.checks[-1]["verdict"] != UNSAT:
            raise z3.Z3Exception("core is not available")
        core = []
        if callable(self.core_mode):
            core = list(self.core_mode(self))
        else:
            for name in sorted(self.tracked):
                if self.core_mode == "all" or (self.core_mode == "choice" and self.ex.choose(2, "core") == 0):
                    core.append(z3.Bool(name))
        self.calls.append(("unsat_core", [str(c) for c in core]))
        self.last_core = core
        return core

    def statistics(self):
        return []

    def _real(self):
        """a genuine z3 object holding exactly what was handed to the stub (for z3's own printers)"""
        if self.kind == "Optimize":
            s = z3.Optimize()
            s.add(self.assertions())
            for k, t in self.objectives:
                (s.minimize if k == "minimize" else s.maximize)(t)
            return s
        s = z3.Solver()
        s.add(self.assertions())
        return s

    def to_smt2(self):
        if self.kind == "Optimize":
            raise AttributeError("'Optimize' object has no attribute 'to_smt2'")
        return self._real().to_smt2()

    def sexpr(self):
        return self._real().sexpr()

    def param_descrs(self):
        return z3.Solver().param_descrs()


class _StubCtorMeta(type):
    """`z3.Solver(...)` / `z3.Optimize(...)` return the stub; isinstance(x, z3.Optimize) keeps working."""

    def __call__(cls, *a, **kw):
        return cls._factory(cls._kind, None)

    def __instancecheck__(cls, inst):
        return isinstance(inst, StubSolver) and inst.kind == cls._kind


class Z3Proxy:
    """Stands for the name `z3` inside processscheduler.solver: the three solver constructors return
    the stub, set_option calls are recorded, everything else is the real z3."""

    def __init__(self, factory):
        self._factory = factory
        self.global_options = []
        self.Solver = _StubCtorMeta("Solver", (), {"_factory": staticmethod(factory), "_kind": "Solver"})
        self.Optimize = _StubCtorMeta("Optimize", (), {"_factory": staticmethod(factory), "_kind": "Optimize"})

    def SolverFor(self, logic, *a, **kw):
        return self._factory("SolverFor", logic)

    def set_option(self, *a, **kw):
        self.global_options.append((a, kw))

    def __getattr__(self, name):
        return getattr(z3, name)


class Clock:
    """time.perf_counter replacement: check() number k takes `slow` seconds if k in slow_at, else 0."""

    def __init__(self, solver_ref, slow_at=(), slow=1000.0):
        self.t = 0.0
        self.solver_ref, self.slow_at, self.slow = solver_ref, set(slow_at), slow
        self.calls = 0

    def perf_counter(self):
        # called before and after each check(): the second call of a pair advances the clock
        self.calls += 1
        if self.calls % 2 == 0:
            k = self.calls // 2 - 1
            self.t += self.slow if k in self.slow_at else 0.001
        return self.t

    def __getattr__(self, name):
        import time as _t

        return getattr(_t, name)


@contextlib.contextmanager
def stubbed(ex, max_checks=6, script=None, slow_at=(), holder=None, core_mode="choice"):
    """Replace z3 / time as seen by processscheduler.solver for the duration of a run."""
    import processscheduler.solver as pss

    created = []

    def factory(kind, logic):
        s = StubSolver(ex, kind, max_checks=max_checks, script=script, logic=logic, core_mode=core_mode)
        created.append(s)
        return s

    proxy = Z3Proxy(factory)
    clock = Clock(created, slow_at=slow_at)
    saved = (pss.z3, pss.time)
    pss.z3, pss.time = proxy, clock
    if holder is not None:
        holder["solvers"], holder["proxy"], holder["clock"] = created, proxy, clock
    try:
        yield created, proxy
    finally:
        pss.z3, pss.time = saved
