"""C01 - task timing: window, duration, release, deadline. Q-sound on every admitted schedule,
with all integer parameters symbolic (unbounded LIA)."""
import itertools

import z3

import processscheduler as ps

from symx.harness import Shape, Ob, Ctx, run_property
from checks.common import make_task, new_problem, task_must

PROP = "C01"
KINDS = {
    "zero": dict(kind="zero"),
    "fixed": dict(kind="fixed"),
    "var": dict(kind="var"),
    "var_minmax": dict(kind="var", vmin=True, vmax=True),
    "var_allowed2": dict(kind="var", allowed=2),
    "var_all": dict(kind="var", vmin=True, vmax=True, allowed=3),
}
CONTEXTS = ["none", "worker", "precedence", "select", "cumulative", "buffer", "objective", "optional_constraint",
            "second_task_first", "after_first_solver", "after_first_solve_and_export",
            # the task is only named by constraints that are operands of a connective (never asserted on their own)
            "either_order", "negated_precedence", "implied_rule", "if_then_else_rules"]


def _context(P, ctx, ti, what):
    """Other model elements declared next to the task under test (cross-talk detection)."""
    if what == "none":
        return
    if what in ("second_task_first", "after_first_solver", "after_first_solve_and_export"):
        return  # handled before creating the task
    if what == "worker":
        w = ps.Worker(name="W")
        ti.obj.add_required_resource(w)
        other = ps.FixedDurationTask(name="O", duration=2)
        other.add_required_resource(w)
    elif what == "precedence":
        other = ps.FixedDurationTask(name="O", duration=2)
        ps.TaskPrecedence(task_before=other, task_after=ti.obj, offset=1)
    elif what == "select":
        w1, w2 = ps.Worker(name="W1"), ps.Worker(name="W2")
        ti.obj.add_required_resource(ps.SelectWorkers(list_of_workers=[w1, w2], nb_workers_to_select=1))
    elif what == "cumulative":
        cw = ps.CumulativeWorker(name="CW", size=2)
        ti.obj.add_required_resource(cw)
        other = ps.FixedDurationTask(name="O", duration=2)
        other.add_required_resource(cw)
    elif what == "buffer":
        b = ps.NonConcurrentBuffer(name="B", initial_level=5)
        ps.TaskUnloadBuffer(task=ti.obj, buffer=b, quantity=1)
    elif what == "objective":
        ps.ObjectiveMinimizeMakespan()
        ps.IndicatorTardiness() if ti.due is not None else None
    elif what == "optional_constraint":
        ps.TaskStartAt(task=ti.obj, value=3, optional=True)
    elif what == "either_order":
        other = ps.FixedDurationTask(name="O", duration=2)
        ps.Or(list_of_constraints=[ps.TaskPrecedence(task_before=ti.obj, task_after=other), ps.TaskPrecedence(task_before=other, task_after=ti.obj)])
    elif what == "negated_precedence":
        other = ps.FixedDurationTask(name="O", duration=2)
        ps.Not(constraint=ps.TaskPrecedence(task_before=ti.obj, task_after=other, offset=1))
    elif what == "implied_rule":
        other = ps.FixedDurationTask(name="O", duration=2)
        ps.Implies(condition=z3.Bool("cond"), list_of_constraints=[ps.TaskPrecedence(task_before=ti.obj, task_after=other), ps.TaskEndBefore(task=ti.obj, value=40)])
    elif what == "if_then_else_rules":
        other = ps.FixedDurationTask(name="O", duration=2)
        ps.IfThenElse(condition=z3.Bool("cond"), then_list_of_constraints=[ps.TaskPrecedence(task_before=ti.obj, task_after=other)],
                      else_list_of_constraints=[ps.TasksStartSynced(task_1=ti.obj, task_2=other)])


def _shape(kname, optional, release, due, horizon, context, cfg=None):
    name = f"{kname}/{'opt' if optional else 'mand'}/rel{int(release)}/due_{due or 'none'}/hz{int(horizon)}/ctx_{context}"
    if cfg:
        name += "/" + "_".join(f"{k}={v}" for k, v in sorted(cfg.items()))

    def build(P):
        pb, hv = new_problem(P, horizon)
        if context == "second_task_first":
            ps.FixedDurationTask(name="O", duration=2, optional=True)
        if context in ("after_first_solver", "after_first_solve_and_export"):
            # history: the problem was already handed to a solver before the task under test is declared
            o = ps.FixedDurationTask(name="O", duration=2)
            ps.TaskStartAfter(task=o, value=1)
            s0 = ps.SchedulingSolver(problem=pb)
            if context == "after_first_solver":
                s0.initialize()
            else:
                s0.solve()
                s0.export_to_smt2(__import__("os").path.join(__import__("tempfile").gettempdir(), "c01_hist.smt2"))
        ti = make_task(P, "A", optional=optional, release=release, due=due, **KINDS[kname])
        ctx = Ctx(problem=pb, ti=ti, horizon=hv)
        _context(P, ctx, ti, context)
        return ctx

    def obligations(ctx):
        ti = ctx.ti
        H = ctx.problem._horizon
        obs = []
        for cname, clause in task_must(ti, H, ctx.horizon):
            obs.append(Ob(f"{PROP}/{name}/{cname}", "sound", clause=clause, guard=ti.sched))
        if ctx.horizon is not None:
            obs.append(Ob(f"{PROP}/{name}/horizon_var_le_user_horizon", "sound", clause=H <= ctx.horizon))
        return obs

    return Shape(name, build, obligations, solver_cfg=cfg or {})


# ---- the base rules of every task survive every other element, in every role (class-generic, concrete problem) ----
ROLES = {
    "plain": lambda mk: mk("x1"),
    "negated": lambda mk: ps.Not(name="role", constraint=mk("x1")),
    "alternative": lambda mk: ps.Or(name="role", list_of_constraints=[mk("x1"), z3.Bool("free_atom")]),
    "implied": lambda mk: ps.Implies(name="role", condition=z3.Bool("free_cond"), list_of_constraints=[mk("x1")]),
}


def class_context_shape(cname, role):
    """the small problem of C18's sweep (five tasks, two workers, selections, a buffer) plus one instance of the
    class, declared plainly or only as an operand: start >= 0, end <= horizon, end - start = duration for every
    scheduled task"""
    name = f"every_class/{cname}/{role}"

    def build(P):
        from checks import c10, c18
        pb = ps.SchedulingProblem(name="ctx", horizon=12)
        e = c18._env()
        ROLES[role](lambda nm: c10._make_instance(cname, e, nm))
        return Ctx(problem=pb, env=e)

    def obligations(ctx):
        obs = []
        H = ctx.problem._horizon
        for key, dur in (("t1", 2), ("t2", 2), ("t3", 2), ("o1", 1), ("o2", 1)):
            t = ctx.env[key]
            g = t._scheduled if z3.is_expr(t._scheduled) else True
            obs.append(Ob(f"{PROP}/{name}/{t.name}_inside_the_horizon_with_its_duration", "sound",
                          clause=z3.And(t._start >= 0, t._end <= H, H <= 12, t._end - t._start == dur), guard=g, extra={"vacuous_ok": True}))
        return obs

    sh = Shape(name, build, obligations)
    sh.grid = False
    return sh



def shapes(tier):
    out = []
    for kname, optional, release, due, horizon in itertools.product(
            KINDS, (False, True), (False, True), (None, "deadline", "soft"), (False, True)):
        out.append(_shape(kname, optional, release, due, horizon, "none"))
    # context shapes: the task under test next to every other element kind
    ctx_kinds = list(KINDS) if tier == "thorough" else ["zero", "fixed", "var_minmax"]
    for kname, optional, context in itertools.product(ctx_kinds, (False, True), CONTEXTS[1:]):
        if context == "objective":
            out.append(_shape(kname, optional, True, "soft", True, context))
        else:
            out.append(_shape(kname, optional, True, "deadline", True, context))
    from checks import c05 as _c05
    for cname in _c05._constraint_classes():
        for role in (ROLES if tier == "thorough" else ("negated", "alternative")):
            if role != "plain" and cname == "ForceApplyNOptionalConstraints":
                continue
            out.append(class_context_shape(cname, role))
    # solver configurations
    cfgs = [dict(debug=True), dict(logics="QF_LIA"), dict(parallel=True), dict(random_values=True)]
    if tier == "thorough":
        cfgs += [dict(logics="QF_IDL"), dict(logics="QF_UFLIA"), dict(debug=True, parallel=True)]
    for cfg in cfgs:
        for kname in ("fixed", "var_minmax", "zero"):
            out.append(_shape(kname, True, True, "deadline", True, "none", cfg))
    from checks import c03 as _c03d
    out += _c03d.default_shapes(PROP)
    return out


def main(tier):
    return run_property(
        PROP, "checks.c01", tier, "translation_validation",
        assumptions=[
            "integer parameters are arbitrary integers satisfying the field constraints declared on the real classes (read at run time)",
            "pydantic-core enforces the declared field constraints (boundary behaviour is the subject of C18)",
            "shape bound: one task under test, alone and next to one element of every other kind (also when the task is only named by operands of connectives); larger mixes are covered by monotonicity of conjunction (DESIGN 3.2), itself checked class by class: the base rules of five concrete tasks next to each of the 35 constraint classes in 2 (thorough 4) roles",
            "z3 4.12.6 decides the QF_LIA queries; solver configuration only selects the z3 engine (C15)",
        ])
