"""C14 - meaning is independent of names, declaration order and earlier problems.
Twins of the same problem are built by the real API inside one symbolic run (canonical build vs a
renamed / permuted / later build); the two assertion sets must admit the same schedules, with
observables matched through the objects (not by name) and every auxiliary quantified."""
import itertools

import z3

import processscheduler as ps

from symx import formula, engine
from symx.formula import And, Or, Not, Implies
from symx.harness import Shape, Ob, Ctx, run_property, quiet
from checks.common import make_task, new_problem

PROP = "C14"

CANON = {"T1": "T1", "T2": "T2", "T3": "T3", "W1": "W1", "W2": "W2", "c1": "c1", "c2": "c2", "c3": "c3", "B": "B", "pb": "pb"}
NAME_POOLS = {
    "prefixes": {"T1": "A", "T2": "AA", "T3": "A_1", "W1": "A_", "W2": "AAA"},
    "spaces_and_punctuation": {"T1": "op 1", "T2": "op-1", "T3": "op.1", "W1": "m 1", "W2": "m-1"},
    "same_across_kinds": {"T1": "X", "W1": "X", "T2": "Y", "W2": "Y", "T3": "Z", "c1": "X", "B": "X"},
    "digits_and_keywords": {"T1": "1", "T2": "01", "T3": "start", "W1": "end", "W2": "busy"},
    "reversed": {"T1": "T3", "T3": "T1", "W1": "W2", "W2": "W1"},
    "unicode_and_long": {"T1": "tâche", "T2": "T" * 40, "T3": "t", "W1": "Ω", "W2": "w" * 33},
}


class Scenario:
    """A parametric problem. build(P, names, order) declares it through the real API and returns the
    list of (key, z3 variable) observables, keyed independently of the chosen names."""

    def __init__(self, name, stages):
        self.name = name
        self.stages = stages  # stage name -> number of elements that can be permuted


def _perm(seq, perm):
    return [seq[i] for i in perm] if perm else list(seq)


def build_rich(P, names, order, variant):
    n = lambda k: names.get(k, k)
    pb = ps.SchedulingProblem(name=n("pb"), horizon=P.int("hz", ph=30))
    # --- tasks
    # make_task names its symbolic parameters after the task name: keep them canonical
    tis = {}
    for key in _perm(["T1", "T2", "T3"], order.get("tasks")):
        tis[key] = _make_named(P, key, n(key), variant)
    # --- workers
    ws = {}
    for key in _perm(["W1", "W2"], order.get("workers")):
        ws[key] = ps.Worker(name=n(key), productivity=2 if key == "W1" else 1, cost=ps.ConstantFunction(value=2 if key == "W1" else 5))
    # --- assignments (fixed order: a declaration stage of its own)
    sel = None
    for key in _perm(["T1", "T2", "T3"], order.get("assign")):
        if key == "T1":
            tis["T1"].obj.add_required_resource(ws["W1"])
        elif key == "T2":
            if variant == "select":
                sel = ps.SelectWorkers(list_of_workers=[ws["W1"], ws["W2"]], nb_workers_to_select=1)
                tis["T2"].obj.add_required_resource(sel)
            else:
                tis["T2"].obj.add_required_resource(ws["W1"])
        else:
            tis["T3"].obj.add_required_resource(ws["W1"] if variant in ("distance", "select") else ws["W2"])
    # --- constraints
    cspecs = {
        "c1": lambda: ps.TaskPrecedence(name=n("c1"), task_before=tis["T1"].obj, task_after=tis["T3"].obj, offset=P.int("c1_off", ph=1)),
        "c2": lambda: ps.TaskStartAfter(name=n("c2"), task=tis["T2"].obj, value=P.int("c2_v", ph=2)),
        "c3": (lambda: ps.ResourceTasksDistance(name=n("c3"), resource=ws["W1"], distance=P.int("c3_d", ph=1), mode="min"))
        if variant in ("distance", "select") else
        (lambda: ps.ResourceUnavailable(name=n("c3"), resource=ws["W1"], list_of_time_intervals=[(P.int("c3_lo", ph=4), P.int("c3_hi", ph=6))])),
    }
    for key in _perm(["c1", "c2", "c3"], order.get("constraints")):
        cspecs[key]()
    buf = None
    if variant == "buffer":
        buf = ps.NonConcurrentBuffer(name=n("B"), initial_level=P.int("B_init", ph=5))
        ps.TaskUnloadBuffer(task=tis["T1"].obj, buffer=buf, quantity=P.int("B_q1", ph=1))
        ps.TaskLoadBuffer(task=tis["T3"].obj, buffer=buf, quantity=P.int("B_q3", ph=2))
    # --- indicators / objectives
    inds = {}
    ispecs = {
        "i1": lambda: ps.IndicatorTardiness(list_of_tasks=[tis["T3"].obj]),
        "i2": lambda: ps.IndicatorResourceCost(list_of_resources=[ws["W1"], ws["W2"]]),
    }
    for key in _perm(["i1", "i2"], order.get("indicators")):
        inds[key] = ispecs[key]()
    obj = None
    obj_roles = {}
    if variant == "objective":
        obj_roles["makespan"] = ps.ObjectiveMinimizeMakespan()
        obj_roles["flowtime"] = ps.ObjectiveMinimizeFlowtime()
    if variant == "objective_bounded":
        # two objectives of one direction, one on an indicator with declared bounds; declaration order is a stage
        ib = ps.IndicatorFromMathExpression(name=n("ib"), expression=tis["T1"].s, bounds=(P.int("ob_lo", ph=0), P.int("ob_hi", ph=3)))
        iu = ps.IndicatorFromMathExpression(name=n("iu"), expression=tis["T3"].s)
        ospecs = {"o1": lambda: ps.ObjectiveMaximizeIndicator(target=ib, weight=1), "o2": lambda: ps.ObjectiveMaximizeIndicator(target=iu, weight=2)}
        for key in _perm(["o1", "o2"], order.get("objectives")):
            obj_roles[key] = ospecs[key]()
    # --- observables, keyed by role: (key, variable, key of the flag that makes it meaningful or None)
    # the dates of an unscheduled optional task / the choice made for it are existential (DESIGN C14)
    obs = [("horizon", pb._horizon, None)]
    flag = {}
    for key, t in tis.items():
        flag[key] = f"{key}.scheduled" if z3.is_expr(t.obj._scheduled) else None
        obs += [(f"{key}.start", t.s, flag[key]), (f"{key}.end", t.e, flag[key])]
        if t.kind == "var":
            obs.append((f"{key}.duration", t.obj._duration, flag[key]))
        if flag[key]:
            obs.append((flag[key], t.obj._scheduled, None))
    for wk, w in ws.items():
        for tk, t in tis.items():
            if t.obj in w._busy_intervals and not (sel is not None and tk == "T2"):
                bs, be = w._busy_intervals[t.obj]
                obs += [(f"{wk}.busy.{tk}.start", bs, flag[tk]), (f"{wk}.busy.{tk}.end", be, flag[tk])]
    if sel is not None:
        for wk, w in ws.items():
            obs.append((f"sel.{wk}", sel._selection_dict[w], flag["T2"]))
    for key, ind in inds.items():
        obs.append((f"{key}.value", ind._indicator_variable, None))
    # the optimised quantities are observables too: equal constraint systems over them have equal optima
    for role, o in obj_roles.items():
        obs.append((f"objective.{role}.target", o._target, None))
    if buf is not None:
        for i, lv in enumerate(buf._buffer_levels):
            obs.append((f"B.level{i}", lv, None))
    return pb, obs


def _make_named(P, key, name, variant):
    """task `key` of the scenario, created under the element name `name`; its symbolic parameters are
    keyed by the role `key` so that twins share them"""
    if key == "T1":
        return make_task(P, name, "fixed", work_amount=(variant == "work"), pkey=key)
    if key == "T2":
        return make_task(P, name, "var", optional=(variant != "mandatory"), vmin=True, vmax=True,
                         work_amount=(variant == "work"), pkey=key)
    return make_task(P, name, "fixed", due="soft", priority=True, pkey=key)


def twin_shape(variant, kind, tag, names=None, order=None, noise=None):
    """kind: rename | permute | history"""
    name = f"{kind}/{variant}/{tag}"

    def build(P):
        builder = BUILDERS.get(variant, build_rich)
        pb1, obs1 = builder(P, dict(CANON), {}, variant)
        s1 = ps.SchedulingSolver(problem=pb1)
        params1 = _global_params()
        s1.initialize()
        phi1 = list(s1._solver.assertions())
        if noise:
            _noise(noise)
        nm2 = dict(CANON)
        nm2.update(names or {})
        pb2, obs2 = builder(P, nm2, order or {}, variant)
        s2 = ps.SchedulingSolver(problem=pb2)
        params2 = _global_params()
        return Ctx(problem=pb2, obs1={k: v for k, v, _ in obs1}, obs2={k: v for k, v, _ in obs2},
                   guards={k: g for k, _, g in obs1}, phi1=phi1, params1=params1, params2=params2,
                   solver1=s1, early_solver=s2)

    def obligations(ctx):
        # map twin-2 observables back onto twin-1's variables (matched by role, not by name)
        pairs = []
        for key, v2 in ctx.obs2.items():
            v1 = ctx.obs1[key]
            if not v1.eq(v2):
                pairs.append((v2, v1))
        phi2 = [z3.substitute(a, *pairs) for a in ctx.phi] if pairs else list(ctx.phi)
        # observables that are always meaningful are compared directly; those guarded by a scheduled
        # flag are compared through a normalised copy n = If(flag, value, default), the raw variable
        # being existential on both sides
        direct, defs = [], []
        for key, v in ctx.obs1.items():
            g = ctx.guards[key]
            if g is None:
                direct.append(v)
            else:
                n = z3.Bool(f"n_{key}") if z3.is_bool(v) else z3.Int(f"n_{key}")
                dflt = z3.BoolVal(False) if z3.is_bool(v) else z3.IntVal(0)
                defs.append(n == z3.If(ctx.obs1[g], v, dflt))
                direct.append(n)
        observables = direct
        obs = [
            Ob(f"{PROP}/{name}/no_schedule_lost", "complete", valid=And(ctx.phi1 + defs), observables=observables, phi=phi2 + defs,
               replayer="checks.c14:replay_twins", extra={"lost_in": "twin"}),
            Ob(f"{PROP}/{name}/no_schedule_gained", "complete", valid=And(phi2 + defs), observables=observables, phi=ctx.phi1 + defs,
               replayer="checks.c14:replay_twins", extra={"lost_in": "canonical"}),
        ]
        if kind == "history":
            obs.append(Ob(f"{PROP}/{name}/z3_global_parameters_unchanged", "custom", fn=_params_equal))
        obs.append(Ob(f"{PROP}/{name}/objective_wiring_is_the_same", "custom", fn=_wiring_equal, replayer="checks.c14:replay_wiring"))
        return obs

    sh = Shape(name, build, obligations)
    sh.grid_limit = 2
    sh.twin = dict(variant=variant, names=names, order=order, noise=noise)
    # listed intervals are well-formed and non-negative (negative dates are the library's parking area)
    sh.assumptions = lambda P: ([P.v("c3_lo") >= 0, P.v("c3_lo") < P.v("c3_hi")] if "c3_lo" in P.terms else [])
    return sh


GLOBAL_PARAMS = ["timeout", "verbose", "unsat_core", "parallel.enable", "sat.threads", "smt.threads", "sat.random_seed",
                 "smt.random_seed", "smt.arith.random_initial_value"]


def _global_params():
    out = {}
    for p in GLOBAL_PARAMS:
        try:
            out[p] = z3.get_param(p)
        except Exception as e:  # noqa
            out[p] = f"?{type(e).__name__}"
    return out


def _noise(kind):
    """Unrelated problems built (and solved) before the problem under test."""
    for i, cfg in enumerate(kind):
        pb = ps.SchedulingProblem(name=f"noise{i}", horizon=12)
        a = ps.FixedDurationTask(name="T1", duration=3)  # same element names as the problem under test
        b = ps.FixedDurationTask(name="noise_b", duration=2, optional=True)
        w = ps.Worker(name="W1")
        a.add_required_resource(w)
        b.add_required_resource(ps.SelectWorkers(list_of_workers=[w, ps.Worker(name="W2")], nb_workers_to_select=1))
        ps.TaskStartAt(name="c1", task=a, value=2)
        if cfg.get("objective"):
            ps.ObjectiveMinimizeMakespan()
        scfg = {k: v for k, v in cfg.items() if k not in ("objective", "solve")}
        s = ps.SchedulingSolver(problem=pb, **scfg)
        if cfg.get("solve", True):
            s.solve()
        else:
            s.initialize()


def _params_equal(ctx, path):
    now = None
    # parameters right after constructing the solver of the twin built later
    now = getattr(ctx, "params2", None)
    if now is None:
        return {"status": "error", "note": "params2 missing"}
    diff = {k: (ctx.params1[k], now[k]) for k in ctx.params1 if ctx.params1[k] != now[k]}
    if diff:
        return {"status": "error", "note": f"z3 global parameters differ after earlier problems: {diff}"}
    return {"status": "unsat", "queries": 0}


def _wiring_equal(ctx, path):
    """what the optimiser is told (direction, declared bounds used for early stops) does not depend on
    names, declaration order or history"""
    s1, s2 = ctx.solver1, ctx.solver
    o1, o2 = s1._objective, s2._objective
    if (o1 is None) != (o2 is None):
        return {"status": "sat", "queries": 0, "witness": {"params": {}, "pins": {}, "what": "one twin has an objective, the other none"}}
    if o1 is None:
        return {"status": "unsat", "queries": 0}
    if o1.kind != o2.kind:
        return {"status": "sat", "queries": 0, "witness": {"params": {}, "pins": {}, "what": f"optimisation direction differs: {o1.kind} vs {o2.kind}"}}
    b1, b2 = o1._bounds, o2._bounds
    same = (b1 is None and b2 is None) or (b1 is not None and b2 is not None and all(formula.to_z3(x).eq(formula.to_z3(y)) for x, y in zip(b1, b2)))
    if not same:
        base = [formula.to_z3(x) for x in list(path.assume) + list(path.pc)]
        # parameters for which the problem is feasible and the optimised quantity can pass every bound involved
        extra = []
        for b in (b1 or ()) + (b2 or ()):
            extra += [o1._target > formula.to_z3(b), formula.to_z3(b) >= 0]
        # ... and for which a first model can sit exactly on the bound of the optimiser's direction while a
        # strictly better schedule exists (then the early stop, taken by one twin only, shows in the optimum)
        from symx import stubs as _stubs
        sharp = []
        for o, phi in ((o1, ctx.phi1), (o2, ctx.phi)):
            if o._bounds is None:
                continue
            bd = formula.to_z3(o._bounds[1] if o.kind == "maximize" else o._bounds[0])
            copy, mp = _stubs.rename_problem_constants(list(phi), "onbound")
            t_copy = mp.get(o._target.decl().name())
            if t_copy is not None:
                sharp += copy + [t_copy == bd, (o1._target > bd) if o.kind == "maximize" else (o1._target < bd)]
        for attempt in (base + list(ctx.phi1) + sharp, base + list(ctx.phi1) + extra, base + list(ctx.phi1), base):
            v, m, _ = formula.solve_shrunk(attempt, 20000)
            if v == "sat":
                break
        params = {n: (formula.val(m, t) if z3.is_expr(t) else t) for n, t in ctx.P.terms.items()} if v == "sat" else {}
        return {"status": "sat", "queries": 1, "witness": {"params": params, "pins": {}, "what": f"bounds handed to the optimiser differ between the twins: {b1} vs {b2}"}}
    return {"status": "unsat", "queries": 0}


def replay_wiring(desc):
    """real z3 behind the steering shim of C07 (the first model found is steered onto a bound handed to the
    optimiser, a legitimate answer of a contract-abiding solver): both twins must end on the same optimum"""
    import io
    import contextlib
    import warnings
    import processscheduler.solver as pss
    import symx.harness as H
    from checks.c07 import SteeredSolver

    shape = H.get_shape(desc["module"], desc["shape"])
    w = desc["witness"]
    tw = shape.twin
    builder = BUILDERS.get(tw["variant"], build_rich)

    def run(names, order):
        log, holder = [], {}

        class Proxy:
            def _wrap(self, real):
                def plan_target():
                    return holder["solver"]._objective._target if holder["solver"]._objective is not None else None
                b = holder["solver"]._objective._bounds if holder["solver"]._objective is not None else None
                first = None
                if b is not None:
                    first = b[1] if holder["solver"]._objective.kind == "maximize" else b[0]
                return SteeredSolver(real, (["sat"] + [None] * 8, [first]), plan_target, log)

            def Solver(self, *a, **kw):
                return self._wrap(z3.Solver(*a, **kw))

            def SolverFor(self, *a, **kw):
                return self._wrap(z3.SolverFor(*a, **kw))

            def __getattr__(self, n):
                return getattr(z3, n)

        with contextlib.redirect_stdout(io.StringIO()), warnings.catch_warnings():
            warnings.simplefilter("ignore")
            P = engine.Params("conc", values=w.get("params") or {})
            pb, obs = builder(P, names, order, tw["variant"])
            solver = ps.SchedulingSolver(problem=pb)
            holder["solver"] = solver
            solver.initialize()
            saved = pss.z3
            pss.z3 = Proxy()
            # initialize() already created a genuine solver: wrap it
            solver._solver = Proxy()._wrap(solver._solver)
            try:
                r = solver.solve()
            finally:
                pss.z3 = saved
        engine.reset_z3_globals()
        return (r.indicators.get("EquivalentIndicator") if r else None), log

    nm2 = dict(CANON)
    nm2.update(tw["names"] or {})
    v1, l1 = run(dict(CANON), {})
    v2, l2 = run(nm2, tw["order"] or {})
    print(f"replay: optimum of the canonical build {v1} {l1[:2]}, of the twin {v2} {l2[:2]}")
    if v1 != v2:
        print("CONFIRMED: the optimal objective value reported depends on names / declaration order")
        return 1
    return 0


def replay_twins(desc):
    import symx.harness as H

    shape = H.get_shape(desc["module"], desc["shape"])
    w = desc["witness"]
    P = engine.Params("conc", values=w["params"])
    with quiet():
        ctx = shape.build(P)
        # observables are pinned by role on each twin
        pins1, pins2 = [], []
        byname = {v.decl().name(): k for k, v in ctx.obs1.items()}
        vals = {}
        for n, val in w["pins"].items():
            if n.startswith("n_"):
                vals[n[2:]] = val
            elif n in byname:
                vals[byname[n]] = val
        for k, val in vals.items():
            g = ctx.guards.get(k)
            if g is not None and not vals.get(g, True):
                continue  # meaningless while the task is unscheduled
            zv = z3.BoolVal(val) if isinstance(val, bool) else val
            pins1.append(ctx.obs1[k] == zv)
            pins2.append(ctx.obs2[k] == zv)
        s1 = ctx.solver1
        for e in pins1:
            s1.append_z3_assertion(e)
        r1 = s1.solve()
        s2 = ctx.early_solver
        s2.initialize()
        for e in pins2:
            s2.append_z3_assertion(e)
        r2 = s2.solve()
    engine.reset_z3_globals()
    print(f"replay: canonical build -> {'solution' if r1 else r1}; twin ({shape.twin}) -> {'solution' if r2 else r2}")
    lost_in = desc["extra"]["lost_in"]
    if lost_in == "twin" and r1 and r2 is False:
        print("CONFIRMED: a schedule of the canonical problem is rejected by its renamed/permuted/later twin")
        return 1
    if lost_in == "canonical" and r2 and r1 is False:
        print("CONFIRMED: the renamed/permuted/later twin admits a schedule the canonical problem rejects")
        return 1
    return 0


def build_collision(P, names, order, variant):
    """Three tasks on worker W1: SEL reaches it through a selection, OPT (optional) and X directly;
    the sorted-copies encoding of ResourceTasksDistance needs all its instants distinct."""
    n = lambda k: names.get(k, k)
    pb = ps.SchedulingProblem(name=n("pb"), horizon=P.int("hz", ph=30))
    tis = {}
    for key in _perm(["T1", "T2", "T3"], order.get("tasks")):
        if key == "T1":
            tis[key] = make_task(P, n(key), "fixed", pkey=key)
        elif key == "T2":
            tis[key] = make_task(P, n(key), "fixed", optional=True, pkey=key)
        else:
            tis[key] = make_task(P, n(key), "fixed", pkey=key)
    ws = {}
    for key in _perm(["W1", "W2"], order.get("workers")):
        ws[key] = ps.Worker(name=n(key))
    sel = ps.SelectWorkers(list_of_workers=[ws["W1"], ws["W2"]], nb_workers_to_select=1)
    for key in _perm(["T1", "T2", "T3"], order.get("assign")):
        tis[key].obj.add_required_resource(sel if key == "T1" else ws["W1"])
    ps.ResourceTasksDistance(name=n("c3"), resource=ws["W1"], distance=P.int("c3_d", ph=1, lo=0), mode="min")
    obs = [("horizon", pb._horizon, None)]
    for key, t in tis.items():
        fl = f"{key}.scheduled" if z3.is_expr(t.obj._scheduled) else None
        obs += [(f"{key}.start", t.s, fl), (f"{key}.end", t.e, fl)]
        if fl:
            obs.append((fl, t.obj._scheduled, None))
    for wk, w in ws.items():
        obs.append((f"sel.{wk}", sel._selection_dict[w], None))
    return pb, obs


def build_cumulative(P, names, order, variant):
    """Three tasks with work amounts on a cumulative worker whose productivity and cost do not divide evenly by its
    size (the elementary workers are not interchangeable), a cost indicator on it"""
    n = lambda k: names.get(k, k)
    pb = ps.SchedulingProblem(name=n("pb"), horizon=P.int("hz", ph=30))
    tis = {}
    for key in _perm(["T1", "T2", "T3"], order.get("tasks")):
        if key == "T3":
            tis[key] = make_task(P, n(key), "var", vmin=True, vmax=True, work_amount=True, pkey=key)
        else:
            tis[key] = make_task(P, n(key), "fixed", work_amount=True, pkey=key)
    cw = ps.CumulativeWorker(name=n("W1"), size=2, productivity=3, cost=ps.ConstantFunction(value=5))
    w2 = ps.Worker(name=n("W2"), productivity=1)
    for key in _perm(["T1", "T2", "T3"], order.get("assign")):
        tis[key].obj.add_required_resource(cw)
        if key == "T3":
            tis[key].obj.add_required_resource(w2)
    ind = ps.IndicatorResourceCost(list_of_resources=[cw])
    obs = [("horizon", pb._horizon, None), ("cost", ind._indicator_variable, None)]
    for key, t in tis.items():
        obs += [(f"{key}.start", t.s, None), (f"{key}.end", t.e, None)]
        if t.kind == "var":
            obs.append((f"{key}.duration", t.obj._duration, None))
    return pb, obs


BUILDERS = {"collision": build_collision, "cumulative_uneven": build_cumulative}


def shapes(tier):
    out = []
    thorough = tier == "thorough"
    variants = ["plain", "mandatory", "work", "select", "distance", "buffer", "objective"]
    quick_pools = {"plain": ["spaces_and_punctuation", "same_across_kinds", "prefixes"], "select": ["spaces_and_punctuation", "digits_and_keywords"],
                   "buffer": ["same_across_kinds"], "objective": ["reversed"], "work": ["unicode_and_long"]}
    for variant in variants:
        pools = list(NAME_POOLS) if thorough else quick_pools.get(variant, [])
        for pool in pools:
            out.append(twin_shape(variant, "rename", pool, names=NAME_POOLS[pool]))
        stages = {"tasks": 3, "workers": 2, "assign": 3, "constraints": 3, "indicators": 2}
        for stage, n in stages.items():
            perms = [p for p in itertools.permutations(range(n)) if list(p) != list(range(n))]
            if not thorough:
                keep = {"work": ("tasks", "assign"), "select": ("tasks", "workers"), "distance": ("tasks", "constraints"),
                        "plain": ("constraints", "indicators"), "buffer": ("tasks",), "objective": ("indicators",), "mandatory": ()}
                perms = perms[-2:] if stage in keep[variant] else perms[:1]
            for p in perms:
                out.append(twin_shape(variant, "permute", f"{stage}_{''.join(map(str, p))}", order={stage: list(p)}))
        out.append(twin_shape(variant, "permute", "all_reversed", order={"tasks": [2, 1, 0], "workers": [1, 0], "assign": [2, 1, 0], "constraints": [2, 1, 0], "indicators": [1, 0]}))
    for p in itertools.permutations(range(3)):
        if list(p) != [0, 1, 2]:
            out.append(twin_shape("collision", "permute", f"tasks_{''.join(map(str, p))}", order={"tasks": list(p)}))
    for stage in ("tasks", "assign"):
        for p in ([(1, 0, 2), (2, 1, 0)] if not thorough else [q for q in itertools.permutations(range(3)) if list(q) != [0, 1, 2]]):
            out.append(twin_shape("cumulative_uneven", "permute", f"{stage}_{''.join(map(str, p))}", order={stage: list(p)}))
    out.append(twin_shape("cumulative_uneven", "rename", "prefixes", names=NAME_POOLS["prefixes"]))
    out.append(twin_shape("objective_bounded", "permute", "objectives_10", order={"objectives": [1, 0]}))
    out.append(twin_shape("objective_bounded", "permute", "objectives_10_tasks_210", order={"objectives": [1, 0], "tasks": [2, 1, 0]}))
    out.append(twin_shape("objective_bounded", "rename", "reversed", names=NAME_POOLS["reversed"]))
    noises = {
        "one_solved": [dict()],
        "debug_then_parallel": [dict(debug=True), dict(parallel=True)],
        "random_values_and_optimize": [dict(random_values=True), dict(objective=True, optimizer="optimize")],
        "incremental_objective_max_time": [dict(objective=True, max_time=3), dict(logics="QF_LIA", solve=False)],
    }
    for variant in (variants if thorough else ["plain", "objective"]):
        for tag, nz in noises.items():
            out.append(twin_shape(variant, "history", tag, noise=nz))
    return out


def main(tier):
    return run_property(
        PROP, "checks.c14", tier, "translation_validation",
        assumptions=[
            "twins are compared as constraint systems: same admitted schedules over the role-matched observables (task times, flags, busy intervals, selections, indicator values, buffer levels, horizon); equal constraint systems have equal feasibility verdicts and equal optima",
            "name pools: prefixes of one another, spaces/punctuation, same name across kinds, digits/keywords, swapped names, unicode/long names; names that make two generated z3 constants coincide are outside the claim (collision-free names only)",
            "permutations: every permutation of each declaration stage (3 tasks, 2 workers, 3 assignments, 3 constraints, 2 indicators) separately, plus all stages reversed",
            "history: 1-2 unrelated problems (debug / parallel / random / optimize / other logic) built and solved earlier in the same interpreter; z3 global parameters compared after constructing the solver",
        ])
