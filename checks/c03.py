"""C03 - every declared task constraint holds in every admitted schedule (Q-sound, symbolic
parameters), guarded by the scheduled flags of the tasks it names and its applied flag."""
import itertools

import z3

import processscheduler as ps

from symx.formula import And, Not
from symx.harness import Shape, Ob, Ctx, run_property
from checks.common import make_task, new_problem
from checks.elements import ELEMENTS, contiguous_must

PROP = "C03"

KIND_PATTERNS = {
    1: [("fixed",), ("var",), ("zero",)],
    2: [("fixed", "fixed"), ("var", "fixed"), ("zero", "var")],
    3: [("fixed", "var", "fixed"), ("var", "zero", "fixed")],
}


def _task(P, name, kind, optional):
    if kind == "var":
        return make_task(P, name, "var", optional=optional, vmin=True, vmax=True)
    return make_task(P, name, kind, optional=optional)


def make_shape(prop, ename, variant, kinds, optmask, copt, horizon=False, extra=None, early=False):
    el = ELEMENTS[ename]
    vtag = ",".join(f"{k}={v}" for k, v in sorted(variant.items())) or "-"
    name = f"{ename}/{vtag}/{'+'.join(kinds)}/opt{''.join(str(int(b)) for b in optmask)}/{'optc' if copt else 'mandc'}"
    if horizon:
        name += "/hz"
    if early:
        name += "/solver_object_created_first"

    def build(P):
        pb, hv = new_problem(P, horizon)
        tis = [_task(P, "ABC"[i], k, optmask[i]) for i, k in enumerate(kinds)]
        early_solver = ps.SchedulingSolver(problem=pb) if early else None
        c = el.build(P, tis, optional=copt, **variant)
        ctx = Ctx(problem=pb, tis=tis, cst=c, horizon=hv, named={"applied": c._applied})
        if early:
            ctx.early_solver = early_solver
        if hasattr(el, "assume"):
            ctx.extra_assume = list(el.assume(P, **variant))
        if extra:
            extra(P, ctx)
        return ctx

    def obligations(ctx):
        tis = ctx.tis
        guard = [] if getattr(el, "count_scheduled", False) else [t.sched for t in tis]
        if copt:
            guard.append(ctx.cst._applied)
        if el.lenpos:
            guard += [t.e > t.s for t in tis]
        obs = [Ob(f"{prop}/{name}/{cn}", "sound", clause=cl, guard=And(guard)) for cn, cl in el.must(ctx.P, tis, **variant)]
        if ename.startswith("TasksContiguous") and len(tis) == 3 and any(optmask):
            # optional tasks left out: contiguity binds the scheduled ones only
            for out in range(3):
                if not optmask[out]:
                    continue
                rest = [t for i, t in enumerate(tis) if i != out]
                g = [Not(tis[out].sched)] + [t.sched for t in rest] + [t.e > t.s for t in rest]
                if copt:
                    g.append(ctx.cst._applied)
                for cn, cl in contiguous_must(rest):
                    obs.append(Ob(f"{prop}/{name}/without{out}_{cn}", "sound", clause=cl, guard=And(g)))
        return obs

    return Shape(name, build, obligations)


def shapes(tier):
    out = []
    for ename, el in ELEMENTS.items():
        pats = KIND_PATTERNS[el.ntasks]
        if tier == "quick":
            pats = pats[:2] if el.ntasks < 3 else pats[:1]
        variants = el.variants
        for vi, variant in enumerate(variants):
            for pi, kinds in enumerate(pats):
                if el.lenpos and "zero" in kinds:
                    continue  # order-based rules are stated for positive-length tasks only
                if el.ntasks == 1:
                    masks = [(False,), (True,)]
                elif el.ntasks == 2:
                    masks = [(False, False), (True, False), (False, True), (True, True)]
                else:
                    masks = [(False, False, False), (True, False, False), (False, True, True)]
                    if tier == "thorough":
                        masks = list(itertools.product((False, True), repeat=3))
                if tier == "quick" and len(variants) > 4:
                    # many variants: rotate task-kind patterns / masks over them instead of the full product
                    masks = [masks[(vi + pi) % len(masks)], masks[0]] if len(masks) > 1 else masks
                for mi, mask in enumerate(dict.fromkeys(masks)):
                    out.append(make_shape(PROP, ename, variant, kinds, mask, False))
                    if tier == "thorough" or (mi == 0 and pi == 0):
                        out.append(make_shape(PROP, ename, variant, kinds, mask, True))
            if tier == "thorough" or vi == 0:
                out.append(make_shape(PROP, ename, variant, pats[0], (False,) * el.ntasks, False, horizon=True))
                out.append(make_shape(PROP, ename, variant, pats[0], (False,) * el.ntasks, False, early=True))
    return out


def main(tier):
    return run_property(
        PROP, "checks.c03", tier, "translation_validation",
        assumptions=[
            "integer parameters (values, offsets, interval bounds, lengths) are arbitrary integers within the declared field constraints; counts n enumerated 0..m+1 (z3 pseudo-Boolean counts must be concrete)",
            "order-based rules (TasksContiguous) are stated for positive-length tasks only; zero-length ties are the ambiguous region (DESIGN Appendix A)",
            "ScheduleNTasksInTimeIntervals: listed intervals are well-formed and pairwise disjoint",
            "shape bound: 1-3 named tasks per constraint; larger lists outside the claim",
        ])
