"""C03 - every declared task constraint holds in every admitted schedule (Q-sound, symbolic
parameters), guarded by the scheduled flags of the tasks it names and its applied flag."""
import itertools

import z3

import processscheduler as ps

from symx.formula import And, Not
from symx.harness import Shape, Ob, Ctx, run_property
from checks.common import make_task, new_problem
from checks.elements import ELEMENTS, contiguous_must

PROP = "C03"

KIND_PATTERNS = {
    1: [("fixed",), ("var",), ("zero",)],
    2: [("fixed", "fixed"), ("var", "fixed"), ("zero", "var")],
    3: [("fixed", "var", "fixed"), ("var", "zero", "fixed")],
}


def _task(P, name, kind, optional, dated=False):
    kw = dict(release=True, due="soft") if dated else {}
    if kind == "var":
        return make_task(P, name, "var", optional=optional, vmin=True, vmax=True, **kw)
    return make_task(P, name, kind, optional=optional, **kw)


def make_shape(prop, ename, variant, kinds, optmask, copt, horizon=False, extra=None, early=False, dated=False):
    el = ELEMENTS[ename]
    vtag = ",".join(f"{k}={v}" for k, v in sorted(variant.items())) or "-"
    name = f"{ename}/{vtag}/{'+'.join(kinds)}/opt{''.join(str(int(b)) for b in optmask)}/{'optc' if copt else 'mandc'}"
    if horizon:
        name += "/hz"
    if early:
        name += "/solver_object_created_first"
    if dated:
        name += "/tasks_with_release_and_soft_due_dates"

    def build(P):
        pb, hv = new_problem(P, horizon)
        tis = [_task(P, "ABC"[i], k, optmask[i], dated) for i, k in enumerate(kinds)]
        early_solver = ps.SchedulingSolver(problem=pb) if early else None
        c = el.build(P, tis, optional=copt, **variant)
        ctx = Ctx(problem=pb, tis=tis, cst=c, horizon=hv, named={"applied": c._applied})
        if early:
            ctx.early_solver = early_solver
        if hasattr(el, "assume"):
            ctx.extra_assume = list(el.assume(P, **variant))
        if extra:
            extra(P, ctx)
        return ctx

    def obligations(ctx):
        tis = ctx.tis
        guard = [] if getattr(el, "count_scheduled", False) else [t.sched for t in tis]
        if copt:
            guard.append(ctx.cst._applied)
        if el.lenpos:
            guard += [t.e > t.s for t in tis]
        obs = [Ob(f"{prop}/{name}/{cn}", "sound", clause=cl, guard=And(guard)) for cn, cl in el.must(ctx.P, tis, **variant)]
        if ename.startswith("TasksContiguous") and len(tis) == 3 and any(optmask):
            # optional tasks left out: contiguity binds the scheduled ones only
            for out in range(3):
                if not optmask[out]:
                    continue
                rest = [t for i, t in enumerate(tis) if i != out]
                g = [Not(tis[out].sched)] + [t.sched for t in rest] + [t.e > t.s for t in rest]
                if copt:
                    g.append(ctx.cst._applied)
                for cn, cl in contiguous_must(rest):
                    obs.append(Ob(f"{prop}/{name}/without{out}_{cn}", "sound", clause=cl, guard=And(g)))
        return obs

    return Shape(name, build, obligations)


# ---- a declared rule keeps holding whatever else is declared next to it (class-generic, twin builds) --------------
def _resource_rule(cname):
    import processscheduler.resource_constraint as rc
    return hasattr(rc, cname) and cname not in ("ForceApplyNOptionalConstraints",)


def monotone_shape(prop, x, y, role):
    """The small problem of C18's sweep with rule X, and the same problem with X plus a second element Y in a given
    role (declared plainly, negated, as one alternative of an Or, implied by a free condition): every schedule of
    the second is a schedule of the first - declaring Y never loosens X nor any base rule of the problem."""
    name = f"next_to_another_element/{x}/{role}_{y}"

    def declare(with_y):
        from checks import c01, c10, c18
        pb = ps.SchedulingProblem(name="mono", horizon=12)
        e = c18._env()
        c10._make_instance(x, e, "rule_x")
        if with_y:
            c01.ROLES[role](lambda nm: c10._make_instance(y, e, "y_" + nm))
        return pb

    def build(P):
        pb0 = declare(False)
        s0 = ps.SchedulingSolver(problem=pb0)
        s0.initialize()
        phi_x = list(s0._solver.assertions())
        pb1 = declare(True)
        return Ctx(problem=pb1, phi_x=phi_x)

    def obligations(ctx):
        from symx import formula
        from checks.common import buffer_witness
        c1, _ = formula.constants(ctx.phi_x)
        c2, _ = formula.constants(ctx.phi)
        shared = [c for n, c in c2.items() if n in c1 and "_maybe_busy_" not in n]
        return [Ob(f"{prop}/{name}/nothing_admitted_that_the_rule_alone_rejects", "complete", valid=And(buffer_witness(list(ctx.phi))), observables=shared,
                   phi=list(ctx.phi_x), transform=buffer_witness, twin=buffer_witness(list(ctx.phi)), extra={"vacuous_ok": True, "lost_in": "x_alone"},
                   replayer="checks.c03:replay_monotone", timeout_ms=120000)]

    sh = Shape(name, build, obligations)
    sh.grid = False
    sh.declare = declare
    from symx.harness import crash_obligations
    sh.on_exception = crash_obligations(prop, name, "symx.harness:replay_build_crash", "a well-formed problem cannot be built and initialised")
    return sh


def replay_monotone(desc):
    import symx.harness as H
    from symx import engine, formula
    from symx.harness import quiet

    shape = H.get_shape(desc["module"], desc["shape"])
    w = desc["witness"]
    res = {}
    for with_y in (False, True):
        with quiet():
            pb = shape.declare(with_y)
            probe = ps.SchedulingSolver(problem=pb)
            probe.initialize()
            consts, _ = formula.constants(list(probe._solver.assertions()))
            k = 0
            for n, v in (w.get("pins") or {}).items():
                if "!" in n or n not in consts or "_maybe_busy_" in n or n.startswith(("Selected_", "constraint_", "Indicator_", "task_group_")):
                    continue
                if not isinstance(v, (bool, int)) or not (z3.is_int(consts[n]) or z3.is_bool(consts[n])) or z3.is_bool(consts[n]) != isinstance(v, bool):
                    continue
                ps.ConstraintFromExpression(name=f"__pin_{k}", expression=(consts[n] == (z3.BoolVal(v) if isinstance(v, bool) else v)))
                k += 1
            res[with_y] = bool(ps.SchedulingSolver(problem=pb).solve())
        engine.reset_z3_globals()
    print(f"replay: pinned schedule: with the rule alone -> {res[False]}; with the second element declared too -> {res[True]}")
    if res[True] and not res[False]:
        print("CONFIRMED: declaring a second element admits a schedule that the rule alone rejects")
        return 1
    return 0


def replay_default(desc):
    import symx.harness as H
    from symx import engine, formula
    from symx.harness import quiet

    shape = H.get_shape(desc["module"], desc["shape"])
    w = desc["witness"]
    res = {}
    for explicit in (True, False):
        with quiet():
            pb = shape.declare_default(explicit)
            probe = ps.SchedulingSolver(problem=pb)
            probe.initialize()
            consts, _ = formula.constants(list(probe._solver.assertions()))
            k = 0
            for n, v in (w.get("pins") or {}).items():
                if "!" in n or n not in consts or "_maybe_busy_" in n or n.startswith(("Selected_", "constraint_", "Indicator_", "task_group_")):
                    continue
                if not isinstance(v, (bool, int)) or not (z3.is_int(consts[n]) or z3.is_bool(consts[n])) or z3.is_bool(consts[n]) != isinstance(v, bool):
                    continue
                ps.ConstraintFromExpression(name=f"__pin_{k}", expression=(consts[n] == (z3.BoolVal(v) if isinstance(v, bool) else v)))
                k += 1
            res[explicit] = bool(ps.SchedulingSolver(problem=pb).solve())
        engine.reset_z3_globals()
    print(f"replay: pinned schedule: argument given its documented default -> {res[True]}; argument left out -> {res[False]}")
    if res[True] != res[False]:
        print("CONFIRMED: leaving the argument out does not mean its documented default")
        return 1
    return 0


def monotone_shapes(prop, tier, resource_rules):
    from checks import c01, c05
    classes = [c for c in c05._constraint_classes() if c != "ForceApplyNOptionalConstraints"]
    xs = [c for c in classes if _resource_rule(c) == resource_rules]
    out = []
    roles = list(c01.ROLES)
    for i, x in enumerate(xs):
        if tier == "thorough":
            for y in classes:
                for role in roles:
                    out.append(monotone_shape(prop, x, y, role))
        else:
            for k, role in enumerate(roles):
                out.append(monotone_shape(prop, x, classes[(classes.index(x) + 3 + 5 * k) % len(classes)], role))
    return out



# ---- an argument left out means its documented default (twin builds on the small concrete problem) -------------------
# (property, class, argument, documented default, other arguments) - defaults as documented in docs/*.md and in the field
# descriptions of the classes (arguments whose documented default None is refused by the field type when passed explicitly are left out)
DEFAULTS = [
    ("C01", "FixedDurationTask", "optional", False, {"duration": 2}), ("C01", "FixedDurationTask", "work_amount", 0, {"duration": 2}),
    ("C01", "FixedDurationTask", "release_date", None, {"duration": 2}), ("C01", "FixedDurationTask", "due_date", None, {"duration": 2}),
    ("C01", "FixedDurationTask", "due_date_is_deadline", True, {"duration": 2, "due_date": 7}), ("C01", "FixedDurationTask", "priority", 1, {"duration": 2}),
    ("C01", "VariableDurationTask", "min_duration", 0, {}), ("C01", "VariableDurationTask", "max_duration", None, {}),
    ("C01", "VariableDurationTask", "allowed_durations", None, {"max_duration": 4}), ("C01", "ZeroDurationTask", "optional", False, {}),
    ("C02", "Worker", "productivity", 1, {}), ("C02", "CumulativeWorker", "productivity", 1, {"size": 2}),
    ("C08", "CumulativeWorker", "cost", "zero_cost", {"size": 2}),
    ("C02", "SelectWorkers", "nb_workers_to_select", 1, {}), ("C02", "SelectWorkers", "kind", "exact", {}),
    ("C03", "TaskPrecedence", "offset", 0, {}), ("C03", "TaskPrecedence", "kind", "lax", {}), ("C03", "TaskStartAfter", "kind", "lax", {}),
    ("C03", "TaskEndBefore", "kind", "lax", {}), ("C03", "TaskStartAt", "optional", False, {}), ("C03", "OrderedTaskGroup", "kind", "lax", {}),
    ("C03", "ScheduleNTasksInTimeIntervals", "kind", "exact", {}), ("C03", "ForceScheduleNOptionalTasks", "nb_tasks_to_schedule", 1, {}),
    ("C03", "ForceScheduleNOptionalTasks", "kind", "exact", {}),
    ("C04", "ResourceTasksDistance", "mode", "exact", {}),
    ("C04", "WorkLoad", "kind", "max", {}), ("C04", "ResourcePeriodicallyUnavailable", "offset", 0, {}), ("C04", "ResourcePeriodicallyUnavailable", "start", 0, {}),
    ("C04", "ResourcePeriodicallyUnavailable", "end", None, {}), ("C04", "ResourcePeriodicallyInterrupted", "offset", 0, {}), ("C04", "ResourceUnavailable", "optional", False, {}),
]


def default_shape(prop, cname, arg, value, other):
    name = f"documented_default/{cname}.{arg}"

    def declare(explicit):
        from checks import c18
        pb = ps.SchedulingProblem(name="dflt", horizon=12)
        e = c18._env()
        cls = getattr(ps, cname)
        req = [f for f, fi in cls.model_fields.items() if fi.is_required()]
        kw = {r: c18.REQUIRED[r](e) for r in req if r not in other}
        kw.update(other)
        if cname.startswith("ResourcePeriodically"):
            kw.update(list_of_time_intervals=[(0, 1)], period=6)
        if cname == "ForceScheduleNOptionalTasks" and arg == "kind":
            kw["nb_tasks_to_schedule"] = 1
        if explicit:
            kw[arg] = ps.ConstantFunction(value=0) if value == "zero_cost" else value
        obj = cls(name="X", **kw)
        if cname.endswith("Task"):
            # give the new task something to do so that its parameters matter
            obj.add_required_resource(e["w2"])
            if arg in ("work_amount", "priority"):
                ps.IndicatorTardiness(list_of_tasks=[e["t1"]])
        elif cname in ("Worker", "CumulativeWorker"):
            t = ps.VariableDurationTask(name="XT", work_amount=3, max_duration=6)
            t.add_required_resource(obj)
            if arg == "cost":  # the total cost of the resource, under a name both builds share
                ind = ps.IndicatorResourceCost(list_of_resources=[obj])
                ps.ConstraintFromExpression(name="observe_cost", expression=z3.Int("observed_cost") == ind._indicator_variable)
        elif cname == "SelectWorkers":
            ps.FixedDurationTask(name="XT", duration=2).add_required_resource(obj)
        return pb

    def build(P):
        pb0 = declare(True)
        s0 = ps.SchedulingSolver(problem=pb0)
        s0.initialize()
        phi_e = list(s0._solver.assertions())
        pb1 = declare(False)
        return Ctx(problem=pb1, phi_e=phi_e)

    def obligations(ctx):
        from symx import formula
        from checks.common import buffer_witness
        c1, _ = formula.constants(ctx.phi_e)
        c2, _ = formula.constants(ctx.phi)
        shared = [c for n, c in c2.items() if n in c1 and "_maybe_busy_" not in n]
        return [Ob(f"{prop}/{name}/omitted_admits_what_the_explicit_default_admits", "complete", valid=And(buffer_witness(list(ctx.phi_e))), observables=shared,
                   phi=list(ctx.phi), transform=buffer_witness, twin=buffer_witness(list(ctx.phi_e)), replayer="checks.c03:replay_default"),
                Ob(f"{prop}/{name}/omitted_admits_nothing_more", "complete", valid=And(buffer_witness(list(ctx.phi))), observables=shared,
                   phi=list(ctx.phi_e), transform=buffer_witness, twin=buffer_witness(list(ctx.phi)), replayer="checks.c03:replay_default")]

    sh = Shape(name, build, obligations)
    sh.grid = False
    sh.declare_default = declare
    from symx.harness import crash_obligations
    sh.on_exception = crash_obligations(prop, name, "symx.harness:replay_build_crash", "a well-formed problem cannot be built and initialised")
    return sh


def default_shapes(prop):
    return [default_shape(*d) for d in DEFAULTS if d[0] == prop]



def shapes(tier):
    out = monotone_shapes(PROP, tier, resource_rules=False) + default_shapes(PROP)
    for ename, el in ELEMENTS.items():
        pats = KIND_PATTERNS[el.ntasks]
        if tier == "quick":
            pats = pats[:2] if el.ntasks < 3 else pats[:1]
        variants = el.variants
        for vi, variant in enumerate(variants):
            for pi, kinds in enumerate(pats):
                if el.lenpos and "zero" in kinds:
                    continue  # order-based rules are stated for positive-length tasks only
                if el.ntasks == 1:
                    masks = [(False,), (True,)]
                elif el.ntasks == 2:
                    masks = [(False, False), (True, False), (False, True), (True, True)]
                else:
                    masks = [(False, False, False), (True, False, False), (False, True, True)]
                    if tier == "thorough":
                        masks = list(itertools.product((False, True), repeat=3))
                if tier == "quick" and len(variants) > 4:
                    # many variants: rotate task-kind patterns / masks over them instead of the full product
                    masks = [masks[(vi + pi) % len(masks)], masks[0]] if len(masks) > 1 else masks
                for mi, mask in enumerate(dict.fromkeys(masks)):
                    out.append(make_shape(PROP, ename, variant, kinds, mask, False))
                    if tier == "thorough" or (mi == 0 and pi == 0):
                        out.append(make_shape(PROP, ename, variant, kinds, mask, True))
            if tier == "thorough" or vi == 0:
                out.append(make_shape(PROP, ename, variant, pats[0], (False,) * el.ntasks, False, horizon=True))
                out.append(make_shape(PROP, ename, variant, pats[0], (False,) * el.ntasks, False, early=True))
            # the rule must not read the dates of the tasks it names (a release date, a due date that is not a deadline)
            if tier == "thorough" or vi < 2 or getattr(el, "count_scheduled", False):
                out.append(make_shape(PROP, ename, variant, pats[0], (False,) * el.ntasks, False, dated=True))
    return out


def main(tier):
    return run_property(
        PROP, "checks.c03", tier, "translation_validation",
        assumptions=[
            "class-generic monotonicity on a concrete five-task problem (twin builds): rule X next to element Y in the roles plain / negated / alternative / implied admits nothing that X alone rejects (quick: 100 pairs, thorough: all pairs x roles)",
            "integer parameters (values, offsets, interval bounds, lengths) are arbitrary integers within the declared field constraints; counts n enumerated 0..m+1 (z3 pseudo-Boolean counts must be concrete)",
            "order-based rules (TasksContiguous) are stated for positive-length tasks only; zero-length ties are the ambiguous region (DESIGN Appendix A)",
            "ScheduleNTasksInTimeIntervals: listed intervals are well-formed and pairwise disjoint",
            "shape bound: 1-3 named tasks per constraint; larger lists outside the claim",
        ])
