"""Reference semantics of the resource constraints (DESIGN Appendix A) as data, plus the resource
set-ups (plain worker, worker reached through a selection, cumulative worker) they are declared on."""
import itertools

import z3

import processscheduler as ps

from symx.formula import And, Or, Not, Implies, Sum, b2i, to_z3, zmax, zmin
from checks.common import make_task

K = z3.Int("k_period")  # symbolic period index (free in the query => all periods)


def setup_resource(P, tis, how):
    """Declare the resource the constraint applies to and assign the tasks. Returns
    (resource object, [(TaskInfo, (busy_start, busy_end))...], named aliases)."""
    named = {}
    if how == "worker":
        w = ps.Worker(name="W")
        for t in tis:
            t.obj.add_required_resource(w)
        return w, [(t, w._busy_intervals[t.obj]) for t in tis], named
    if how == "select":
        w, w2 = ps.Worker(name="W"), ps.Worker(name="W2")
        sw = ps.SelectWorkers(list_of_workers=[w, w2], nb_workers_to_select=1)
        tis[0].obj.add_required_resource(sw)
        for t in tis[1:]:
            t.obj.add_required_resource(w)
        named = {"sel_W": sw._selection_dict[w], "sel_W2": sw._selection_dict[w2]}
        return w, [(t, w._busy_intervals[t.obj]) for t in tis], named
    if how == "cumulative":
        cw = ps.CumulativeWorker(name="CW", size=2)
        for t in tis:
            t.obj.add_required_resource(cw)
        busy = [(t, u._busy_intervals[t.obj]) for u in cw._cumulative_workers for t in tis]
        return cw, busy, named
    raise ValueError(how)


def ov(bs, be, lo, hi):
    """length of [bs,be) inside [lo,hi)"""
    return zmax(0, zmin(be, hi) - zmax(bs, lo))


def _count(kind, total, n):
    n = to_z3(n)
    return {"min": total >= n, "max": total <= n, "exact": total == n}[kind]


class RElement:
    def __init__(self, name, build, must, variants=({},), assume=None, min_tasks=1, valid=None, setups=("worker", "select", "cumulative")):
        self.name, self.build, self.must, self.variants = name, build, must, list(variants)
        self.assume = assume or (lambda P, **kw: [])
        self.min_tasks = min_tasks
        self.valid = valid
        self.setups = setups


RELEMENTS = {}


def _ints(P, n, prefix="r"):
    return [(P.v(f"{prefix}_lo{i}"), P.v(f"{prefix}_hi{i}")) for i in range(n)]


def _int_syms(P, n, prefix="r", base=10, width=4):
    return [(P.int(f"{prefix}_lo{i}", ph=base + 10 * i), P.int(f"{prefix}_hi{i}", ph=base + 10 * i + width)) for i in range(n)]


def _wf(P, n, prefix="r", nonneg=True, disjoint=True):
    """listed intervals are well-formed, non-negative and pairwise disjoint - or, for the rules whose meaning does not
    depend on it (unavailability = no work in any listed interval, one workload bound per interval), merely pairwise
    different: nested and overlapping intervals are legitimate input there (two identical entries are rejected at
    creation)"""
    out = []
    ints = _ints(P, n, prefix)
    for lo, hi in ints:
        out.append(lo < hi)
        if nonneg:
            out.append(lo >= 0)
    for (l1, h1), (l2, h2) in itertools.combinations(ints, 2):
        out.append(Or(h1 < l2, h2 < l1) if disjoint else Or(l1 != l2, h1 != h2))
    return out


# --- ResourceUnavailable -------------------------------------------------------------------------
def _unav_build(P, res, nints=1, optional=False, **kw):
    return ps.ResourceUnavailable(name="rc", resource=res, list_of_time_intervals=_int_syms(P, nints), optional=optional)


def _unav_must(P, busy, tis, nints=1, **kw):
    cl = []
    for (t, (bs, be)), (i, (lo, hi)) in itertools.product(busy, enumerate(_ints(P, nints))):
        cl.append((f"free_{t.name}_{i}", Implies(be > bs, Not(And(bs < hi, be > lo)))))
    return cl


RELEMENTS["ResourceUnavailable"] = RElement("ResourceUnavailable", _unav_build, _unav_must,
                                            [dict(nints=1), dict(nints=2), dict(nints=3)], assume=lambda P, nints=1, **kw: _wf(P, nints, disjoint=False))


# --- ResourcePeriodicallyUnavailable -------------------------------------------------------------
def _punav_build(P, res, period=5, nints=1, window="none", optional=False, **kw):
    kwargs = dict(name="rc", resource=res, period=period, optional=optional,
                  list_of_time_intervals=[(P.int(f"r_lo{i}", ph=1 + 2 * i), P.int(f"r_hi{i}", ph=2 + 2 * i)) for i in range(nints)],
                  offset=P.int("r_offset", ph=0))
    if window in ("start", "both"):
        kwargs["start"] = P.int("r_start", ph=2)
    if window in ("end", "both"):
        kwargs["end"] = P.int("r_end", ph=50)
    return ps.ResourcePeriodicallyUnavailable(**kwargs)


def _occurrence(P, lo, hi, period, window):
    """k-th occurrence of the in-period interval, clipped to the activity window."""
    off = P.v("r_offset")
    w_lo = lo + off + K * period
    w_hi = hi + off + K * period
    if window in ("start", "both"):
        w_lo = zmax(w_lo, P.v("r_start"))
    if window in ("end", "both"):
        w_hi = zmin(w_hi, P.v("r_end"))
    return w_lo, w_hi


def _punav_must(P, busy, tis, period=5, nints=1, window="none", **kw):
    cl = []
    for (t, (bs, be)), (i, (lo, hi)) in itertools.product(busy, enumerate(_ints(P, nints))):
        w_lo, w_hi = _occurrence(P, lo, hi, period, window)
        cl.append((f"free_every_period_{t.name}_{i}", Implies(And(be > bs, w_lo < w_hi), Not(And(bs < w_hi, be > w_lo)))))
    return cl


def _punav_assume(P, period=5, nints=1, window="none", **kw):
    out = []
    ints = _ints(P, nints)
    for lo, hi in ints:
        out += [0 <= lo, lo < hi, hi <= period]
    for (l1, h1), (l2, h2) in itertools.combinations(ints, 2):
        out.append(Or(h1 < l2, h2 < l1))
    if window in ("start", "both"):
        out.append(P.v("r_start") >= 0)
    if window == "both":
        out.append(P.v("r_start") < P.v("r_end"))
    return out


RELEMENTS["ResourcePeriodicallyUnavailable"] = RElement(
    "ResourcePeriodicallyUnavailable", _punav_build, _punav_must,
    [dict(period=p, nints=1, window=w) for p in (3, 5) for w in ("none", "start", "end", "both")] + [dict(period=6, nints=2, window="none")],
    assume=_punav_assume)


# --- WorkLoad ------------------------------------------------------------------------------------
def _wl_build(P, res, kind="max", nints=1, optional=False, **kw):
    d = {}
    for i in range(nints):
        d[(P.int(f"r_lo{i}", ph=10 * i), P.int(f"r_hi{i}", ph=10 * i + 6))] = P.int(f"r_bound{i}", ph=3)
    return ps.WorkLoad(name="rc", resource=res, dict_time_intervals_and_bound=d, kind=kind, optional=optional)


def _wl_must(P, busy, tis, kind="max", nints=1, **kw):
    cl = []
    for i, (lo, hi) in enumerate(_ints(P, nints)):
        total = Sum([ov(bs, be, lo, hi) for _, (bs, be) in busy])
        cl.append((f"workload_{i}", _count(kind, total, P.v(f"r_bound{i}"))))
    return cl


RELEMENTS["WorkLoad"] = RElement("WorkLoad", _wl_build, _wl_must,
                                 [dict(kind=k, nints=1) for k in ("max", "min", "exact")] + [dict(kind="max", nints=2)],
                                 assume=lambda P, nints=1, **kw: _wf(P, nints, disjoint=False))


# --- ResourceTasksDistance / ResourceNonDelay ----------------------------------------------------
def _consecutive(busy):
    """pairs (i, j): j is the next busy interval by start after i (no other start in between)."""
    for a, b in itertools.permutations(range(len(busy)), 2):
        (ta, (as_, ae)), (tb, (bs_, be_)) = busy[a], busy[b]
        between = [And(busy[c][1][0] > as_, busy[c][1][0] < bs_) for c in range(len(busy)) if c not in (a, b)]
        yield ta, tb, (as_, ae), (bs_, be_), And(as_ < bs_, Not(Or(between)))


def _dist_build(P, res, mode="exact", nints=0, optional=False, **kw):
    kwargs = dict(name="rc", resource=res, distance=P.int("r_dist", ph=2), mode=mode, optional=optional)
    if nints:
        kwargs["list_of_time_intervals"] = _int_syms(P, nints, base=0, width=30)
    return ps.ResourceTasksDistance(**kwargs)


def _dist_must(P, busy, tis, mode="exact", nints=0, **kw):
    cl = []
    D = P.v("r_dist")
    for ta, tb, (as_, ae), (bs_, be_), nxt in _consecutive(busy):
        gap = bs_ - ae
        rel = {"exact": gap == D, "min": gap >= D, "max": gap <= D}[mode]
        if nints:
            inside = Or([And(ae >= lo, ae <= hi, bs_ >= lo, bs_ <= hi) for lo, hi in _ints(P, nints)])
            cl.append((f"distance_{ta.name}_{tb.name}", Implies(And(nxt, inside), rel)))
        else:
            cl.append((f"distance_{ta.name}_{tb.name}", Implies(nxt, rel)))
    return cl


RELEMENTS["ResourceTasksDistance"] = RElement(
    "ResourceTasksDistance", _dist_build, _dist_must,
    [dict(mode=m, nints=0) for m in ("exact", "min", "max")] + [dict(mode="min", nints=1), dict(mode="exact", nints=2)],
    assume=lambda P, nints=0, **kw: _wf(P, nints) if nints else [], min_tasks=2, setups=("worker", "select"))
RELEMENTS["ResourceTasksDistance"].order_based = True


def _nondelay_build(P, res, optional=False, **kw):
    return ps.ResourceNonDelay(name="rc", resource=res, optional=optional)


def _nondelay_must(P, busy, tis, **kw):
    return [(f"back_to_back_{ta.name}_{tb.name}", Implies(nxt, bs_ == ae)) for ta, tb, (as_, ae), (bs_, be_), nxt in _consecutive(busy)]


RELEMENTS["ResourceNonDelay"] = RElement("ResourceNonDelay", _nondelay_build, _nondelay_must, min_tasks=2, setups=("worker", "select"))
RELEMENTS["ResourceNonDelay"].order_based = True


# --- ResourceInterrupted -------------------------------------------------------------------------
def _intr_build(P, res, nints=1, optional=False, **kw):
    return ps.ResourceInterrupted(name="rc", resource=res, list_of_time_intervals=_int_syms(P, nints), optional=optional)


def _intr_must(P, busy, tis, nints=1, **kw):
    cl = []
    ints = _ints(P, nints)
    for t, (bs, be) in busy:
        assigned = And(bs >= 0, be >= 0)
        if t.kind == "var":
            for i, (lo, hi) in enumerate(ints):
                cl.append((f"start_not_inside_{t.name}_{i}", Implies(assigned, Not(And(bs > lo, bs < hi)))))
                cl.append((f"end_not_inside_{t.name}_{i}", Implies(assigned, Not(And(be > lo, be < hi)))))
            over = Sum([z3.If(And(bs < hi, be > lo), hi - lo, 0) for lo, hi in ints])
            d = t.obj._duration
            cl.append((f"net_duration_min_{t.name}", Implies(assigned, d - over >= t.vmin)))
            if t.vmax is not None:
                cl.append((f"net_duration_max_{t.name}", Implies(assigned, d - over <= t.vmax)))
        else:
            for i, (lo, hi) in enumerate(ints):
                cl.append((f"no_overlap_{t.name}_{i}", Implies(And(assigned, be > bs), Not(And(bs < hi, be > lo)))))
    return cl


RELEMENTS["ResourceInterrupted"] = RElement("ResourceInterrupted", _intr_build, _intr_must,
                                            [dict(nints=1), dict(nints=2)], assume=lambda P, nints=1, **kw: _wf(P, nints))


# --- ResourcePeriodicallyInterrupted -------------------------------------------------------------
# the in-period interval is concrete here: the encoding multiplies its length by a symbolic number
# of crossings, which is nonlinear for symbolic bounds (z3 answered `unknown` after 60 s)
def _pintr_build(P, res, period=5, window="none", lo=1, hi=2, optional=False, **kw):
    kwargs = dict(name="rc", resource=res, period=period, optional=optional,
                  list_of_time_intervals=[(lo, hi)], offset=P.int("r_offset", ph=0))
    if window in ("start", "both"):
        kwargs["start"] = P.int("r_start", ph=2)
    if window in ("end", "both"):
        kwargs["end"] = P.int("r_end", ph=50)
    return ps.ResourcePeriodicallyInterrupted(**kwargs)


def _pintr_must(P, busy, tis, period=5, window="none", lo=1, hi=2, **kw):
    cl = []
    off = P.v("r_offset")
    o_lo, o_hi = lo + off + K * period, hi + off + K * period  # k-th occurrence, unclipped
    for t, (bs, be) in busy:
        active = And(bs >= 0, be >= 0)
        if window in ("start", "both"):
            active = And(active, be > P.v("r_start"))
        if window in ("end", "both"):
            active = And(active, bs < P.v("r_end"))
        if t.kind == "var":
            cl.append((f"start_not_inside_{t.name}", Implies(active, Not(And(bs > o_lo, bs < o_hi)))))
            cl.append((f"end_not_inside_{t.name}", Implies(active, Not(And(be > o_lo, be < o_hi)))))
            if window == "none":
                # the task is lengthened by the interruptions it spans: every occurrence inside dates 0..PINTR_HB spelled out
                bounded = And(be <= PINTR_HB, off >= -period, off <= period)
                over = Sum([z3.If(And(bs <= lo + off + k * period, be >= hi + off + k * period), hi - lo, 0)
                            for k in range(-3, PINTR_HB // period + 3)])
                d = t.obj._duration
                cl.append((f"net_duration_min_{t.name}", Implies(And(active, bounded), d - over >= t.vmin)))
                if t.vmax is not None:
                    cl.append((f"net_duration_max_{t.name}", Implies(And(active, bounded), d - over <= t.vmax)))
        else:
            cl.append((f"no_overlap_{t.name}", Implies(And(active, be > bs), Not(And(bs < o_hi, be > o_lo)))))
    return cl


PINTR_HB = 14


RELEMENTS["ResourcePeriodicallyInterrupted"] = RElement(
    "ResourcePeriodicallyInterrupted", _pintr_build, _pintr_must,
    [dict(period=p, window=w, lo=lo, hi=hi) for (p, lo, hi) in ((3, 1, 2), (5, 1, 3), (5, 0, 2), (4, 2, 4)) for w in ("none", "start", "end")],
    assume=lambda P, window="none", **kw: ([P.v("r_start") >= 0] if window in ("start", "both") else []))
