"""C02 - resources: capacity at a symbolic instant, assignment spans, selection counts, work amount.
The real add_required_resource / SelectWorkers / CumulativeWorker / initialize() run on symbolic
parameters; every clause is a validity query over all admitted schedules and selections."""
import itertools

import z3

import processscheduler as ps

from symx.formula import And, Or, Not, Implies, Sum, b2i, to_z3
from symx.harness import Shape, Ob, Ctx, run_property
from checks.common import make_task, new_problem

PROP = "C02"
TAU = z3.Int("tau")  # the symbolic instant (free in every capacity query => universally quantified)


def active(interval):
    bs, be = interval
    return And(TAU >= 0, bs <= TAU, TAU < be)


def capacity_obs(name, worker, label):
    """At every instant at most one task occupies the worker."""
    obs = []
    ivs = list(worker._busy_intervals.items())
    for (t1, i1), (t2, i2) in itertools.combinations(ivs, 2):
        obs.append(Ob(f"{PROP}/{name}/capacity_{label}_{t1.name}_{t2.name}", "sound",
                      clause=Not(And(active(i1), active(i2)))))
    return obs


def _tasks(P, kinds, optmask, **kw):
    out = []
    for i, k in enumerate(kinds):
        if k == "var":
            out.append(make_task(P, "ABCDEFG"[i], "var", optional=optmask[i], vmin=True, vmax=True, **kw))
        else:
            out.append(make_task(P, "ABCDEFG"[i], k, optional=optmask[i], **kw))
    return out


# ------------------------------------------------------------------------------------------------
def shape_static(kinds, optmask, delays, between=None, second_solver=False, horizon=False, dated=None):
    """dated: None | (release flags, due kinds) per task, e.g. ((False, True), ('soft', None))"""
    name = f"static/{'+'.join(kinds)}/opt{''.join(str(int(b)) for b in optmask)}/delay_{delays}"
    if dated:
        name += "/dated_" + "_".join(f"r{int(r)}{(d or 'none')[0]}" for r, d in zip(*dated))
    if between:
        name += f"/{between}_declared_between_assignments"
    if second_solver:
        name += "/second_solver_after_adding_task"

    def build(P):
        pb, hv = new_problem(P, horizon)
        if dated:
            # tasks with release dates and (soft or hard) due dates sharing the worker
            tis = []
            for i, k in enumerate(kinds):
                kwt = dict(optional=optmask[i], release=dated[0][i], due=dated[1][i])
                tis.append(make_task(P, "ABCDEFG"[i], "var", vmin=True, vmax=True, **kwt) if k == "var" else make_task(P, "ABCDEFG"[i], k, **kwt))
        else:
            tis = _tasks(P, kinds, optmask)
        w = ps.Worker(name="W")
        kw = {}
        ctx = Ctx(problem=pb, tis=tis, w=w, din=0, eout=0)
        if delays in ("both", "in"):
            kw["delay_in"] = P.term("delay_in", ph=1, lo=0)
            ctx.din = P.v("delay_in")
        if delays in ("both", "out"):
            kw["early_out"] = P.term("early_out", ph=1, lo=0)
            ctx.eout = P.v("early_out")
        tis[0].obj.add_required_resource(w, **kw)
        if between == "unavailable":
            ps.ResourceUnavailable(resource=w, list_of_time_intervals=[(P.int("u_lo", ph=50), P.int("u_hi", ph=60))])
        elif between == "workload":
            ps.WorkLoad(resource=w, dict_time_intervals_and_bound={(0, 100): 100})
        elif between == "indicator":
            ps.IndicatorResourceUtilization(resource=w)
        if second_solver:
            s0 = ps.SchedulingSolver(problem=pb)
            s0.initialize()
        for t in tis[1:]:
            t.obj.add_required_resource(w)
        return ctx

    def obligations(ctx):
        a = ctx.tis[0]
        bs, be = ctx.w._busy_intervals[a.obj]
        obs = [
            Ob(f"{PROP}/{name}/busy_start", "sound", clause=bs == a.s + ctx.din, guard=a.sched),
            Ob(f"{PROP}/{name}/busy_end", "sound", clause=be == a.e - ctx.eout, guard=a.sched),
        ]
        for t in ctx.tis[1:]:
            bs2, be2 = ctx.w._busy_intervals[t.obj]
            obs.append(Ob(f"{PROP}/{name}/busy_span_{t.name}", "sound", clause=And(bs2 == t.s, be2 == t.e), guard=t.sched))
        return obs + capacity_obs(name, ctx.w, "W")

    return Shape(name, build, obligations)


def shape_dynamic(kinds, optmask):
    name = f"dynamic/{'+'.join(kinds)}/opt{''.join(str(int(b)) for b in optmask)}"

    def build(P):
        pb, hv = new_problem(P, False)
        tis = _tasks(P, kinds, optmask)
        w = ps.Worker(name="W")
        tis[0].obj.add_required_resource(w, dynamic=True)
        for t in tis[1:]:
            t.obj.add_required_resource(w)
        return Ctx(problem=pb, tis=tis, w=w)

    def obligations(ctx):
        a = ctx.tis[0]
        bs, be = ctx.w._busy_intervals[a.obj]
        obs = [
            Ob(f"{PROP}/{name}/busy_after_start", "sound", clause=bs >= a.s, guard=a.sched),
            Ob(f"{PROP}/{name}/busy_before_end", "sound", clause=be <= a.e, guard=a.sched),
            Ob(f"{PROP}/{name}/busy_span_nonneg", "sound", clause=bs <= be, guard=a.sched),
        ]
        return obs + capacity_obs(name, ctx.w, "W")

    return Shape(name, build, obligations)


def shape_select(nworkers, kind, n, kinds, optmask, other_direct=True, cumul_in_list=False):
    name = f"select/{nworkers}w/{kind}{n}/{'+'.join(kinds)}/opt{''.join(str(int(b)) for b in optmask)}"
    if cumul_in_list:
        name += "/cumulative_in_list"

    def build(P):
        pb, hv = new_problem(P, False)
        tis = _tasks(P, kinds, optmask)
        ws = [ps.Worker(name=f"W{i + 1}") for i in range(nworkers)]
        lst = list(ws)
        if cumul_in_list:
            lst[-1] = ps.CumulativeWorker(name="CW", size=2)
        sw = ps.SelectWorkers(list_of_workers=lst, nb_workers_to_select=n, kind=kind)
        tis[0].obj.add_required_resource(sw)
        if len(tis) > 1:
            if other_direct:
                tis[1].obj.add_required_resource(ws[0])
            else:
                sw2 = ps.SelectWorkers(list_of_workers=list(ws), nb_workers_to_select=1, kind="exact")
                tis[1].obj.add_required_resource(sw2)
        named = {f"sel_{w.name}": sw._selection_dict[w] for w in lst}
        return Ctx(problem=pb, tis=tis, ws=ws, lst=lst, sw=sw, named=named)

    def obligations(ctx):
        a = ctx.tis[0]
        obs = []
        sels = []
        for w in ctx.lst:
            sel = ctx.sw._selection_dict[w]
            sels.append(sel)
            if w not in ctx.ws:
                continue
            bs, be = w._busy_intervals[a.obj]
            obs.append(Ob(f"{PROP}/{name}/selected_busy_eq_span_{w.name}", "sound",
                          clause=And(bs == a.s, be == a.e), guard=And(a.sched, sel)))
            obs.append(Ob(f"{PROP}/{name}/unselected_not_reported_{w.name}", "sound",
                          clause=And(bs < 0, be < 0), guard=Not(sel),
                          extra={"vacuous_ok": kind in ("exact", "min") and n >= len(ctx.lst)}))
        total = Sum([b2i(s) for s in sels])
        cnt = {"exact": total == n, "min": total >= n, "max": total <= n}[kind]
        obs.append(Ob(f"{PROP}/{name}/count", "sound", clause=cnt))
        for w in ctx.ws:
            obs += capacity_obs(name, w, w.name)
        return obs

    def on_exception(path):
        # n > len(list) must be rejected (C18 owns the rule); nothing to check here
        return []

    sh = Shape(name, build, obligations)
    if n > nworkers:
        sh.on_exception = on_exception
        sh.on_grid_exception = lambda pt, e: True
    return sh


def shape_several_shared_workers(modes, ntasks, optmask):
    """Two or three tasks share several directly required workers; task B holds worker k in mode modes[k]
    (static / delayed / dynamic), the other tasks hold every worker for their whole span. Every worker serves
    one task at a time, whatever the other workers the same tasks share, and B's busy interval on each worker
    is the one its mode implies."""
    name = f"several_shared_workers/{'+'.join(modes)}/{ntasks}tasks/opt{''.join(str(int(b)) for b in optmask)}"

    def build(P):
        pb, hv = new_problem(P, False)
        tis = _tasks(P, tuple(["fixed", "fixed", "var"][:ntasks]), optmask)
        ws = [ps.Worker(name=f"W{k + 1}") for k in range(len(modes))]
        shifts = {}
        for k, (w, mode) in enumerate(zip(ws, modes)):
            for i, t in enumerate(tis):
                if i == 1 and mode == "delayed":
                    t.obj.add_required_resource(w, delay_in=P.term(f"din{k}", ph=1, lo=0), early_out=P.term(f"eout{k}", ph=0, lo=0))
                    shifts[k] = (P.v(f"din{k}"), P.v(f"eout{k}"))
                elif i == 1 and mode == "dynamic":
                    t.obj.add_required_resource(w, dynamic=True)
                else:
                    t.obj.add_required_resource(w)
        return Ctx(problem=pb, tis=tis, ws=ws, shifts=shifts)

    def obligations(ctx):
        obs = []
        b = ctx.tis[1]
        for k, (w, mode) in enumerate(zip(ctx.ws, modes)):
            for i, t in enumerate(ctx.tis):
                bs, be = w._busy_intervals[t.obj]
                if i == 1 and mode == "delayed":
                    din, eout = ctx.shifts[k]
                    cl = And(bs == t.s + din, be == t.e - eout)
                elif i == 1 and mode == "dynamic":
                    cl = And(bs >= t.s, be <= t.e, bs <= be)
                else:
                    cl = And(bs == t.s, be == t.e)
                obs.append(Ob(f"{PROP}/{name}/busy_{w.name}_{t.name}", "sound", clause=cl, guard=t.sched))
            obs += capacity_obs(name, w, w.name)
        return obs

    sh = Shape(name, build, obligations)
    # a delayed assignment leaves a non-negative busy span
    sh.assumptions = lambda P: [P.v(f"din{k}") + P.v(f"eout{k}") <= P.v("B_dur") for k, m in enumerate(modes) if m == "delayed"]
    return sh


def class_context_shape(cname, role):
    """C18's small problem plus one instance of a constraint class, declared plainly or only as an operand: the two
    plain workers still serve one task at a time, the directly assigned tasks still occupy their worker for their
    span, each selection still picks exactly one of its two workers"""
    name = f"every_class/{cname}/{role}"

    def build(P):
        from checks import c01, c10, c18
        pb = ps.SchedulingProblem(name="ctx", horizon=12)
        e = c18._env()
        c01.ROLES[role](lambda nm: c10._make_instance(cname, e, nm))
        return Ctx(problem=pb, env=e, named={"sel1_SW": e["sel1"]._selection_dict[e["w"]], "sel2_SW": e["sel2"]._selection_dict[e["w"]]})

    def obligations(ctx):
        e = ctx.env
        obs = []
        for w in (e["w"], e["w2"]):
            obs += capacity_obs(name, w, w.name)
        for t in (e["t1"], e["t2"]):
            bs, be = e["w"]._busy_intervals[t]
            obs.append(Ob(f"{PROP}/{name}/busy_span_{t.name}", "sound", clause=And(bs == t._start, be == t._end)))
        for sel in (e["sel1"], e["sel2"]):
            obs.append(Ob(f"{PROP}/{name}/count_{sel.name[:12]}", "sound", clause=Sum([b2i(x) for x in sel._selection_dict.values()]) == 1))
        for o in obs:
            o.extra = dict(o.extra, vacuous_ok=True)  # a negated rule may simply contradict the rest of the problem
        return obs

    sh = Shape(name, build, obligations)
    sh.grid = False
    return sh


def shape_twice(pattern):
    """One task requires the same worker through two requirements (directly and in a selection list, in two
    selection lists, twice the same cumulative worker). Either the model is rejected at creation (then there is
    nothing to check: C18 owns the rule) or every requirement holds in every schedule: the task occupies the
    directly required worker for its whole span, every selection picks its count among its own list and the
    workers it picks are occupied for the whole span, and no worker serves two tasks at once."""
    name = f"required_twice/{pattern}"

    def build(P):
        pb, hv = new_problem(P, False)
        a, b = _tasks(P, ("fixed", "fixed"), (False, False))
        ws = [ps.Worker(name=n) for n in ("W1", "W2", "W3")]
        reqs = []  # (kind, workers, selection object or None)
        if pattern == "direct_then_select":
            a.obj.add_required_resource(ws[0])
            reqs.append(("direct", [ws[0]], None))
            sw = ps.SelectWorkers(list_of_workers=[ws[0], ws[1]], nb_workers_to_select=1)
            a.obj.add_required_resource(sw)
            reqs.append(("select", [ws[0], ws[1]], sw))
        elif pattern == "two_selections_sharing_a_worker":
            for lst in ([ws[0], ws[1]], [ws[1], ws[2]]):
                sw = ps.SelectWorkers(list_of_workers=lst, nb_workers_to_select=1)
                a.obj.add_required_resource(sw)
                reqs.append(("select", lst, sw))
        elif pattern == "cumulative_twice":
            cw = ps.CumulativeWorker(name="CW", size=2)
            a.obj.add_required_resource(cw)
            a.obj.add_required_resource(cw)
            ws = list(cw._cumulative_workers)
        for w in ws[:2]:
            b.obj.add_required_resource(w) if pattern != "cumulative_twice" else None
        if pattern == "cumulative_twice":
            b.obj.add_required_resource(ws[0])
        return Ctx(problem=pb, tis=[a, b], ws=ws, reqs=reqs)

    def obligations(ctx):
        a = ctx.tis[0]
        obs = []
        for k, (kind, lst, sw) in enumerate(ctx.reqs):
            if kind == "direct":
                bs, be = lst[0]._busy_intervals[a.obj]
                obs.append(Ob(f"{PROP}/{name}/req{k}_direct_worker_occupied_for_the_span", "sound", clause=And(bs == a.s, be == a.e), guard=a.sched))
            else:
                sels = [sw._selection_dict[w] for w in lst]
                obs.append(Ob(f"{PROP}/{name}/req{k}_count", "sound", clause=Sum([b2i(x) for x in sels]) == 1))
                for w, sel in zip(lst, sels):
                    bs, be = w._busy_intervals[a.obj]
                    obs.append(Ob(f"{PROP}/{name}/req{k}_selected_busy_eq_span_{w.name}", "sound", clause=And(bs == a.s, be == a.e), guard=And(a.sched, sel)))
        if pattern == "cumulative_twice":
            # two units of the cumulative worker are occupied by the task
            occ = Sum([b2i(active(w._busy_intervals[a.obj])) for w in ctx.ws])
            obs.append(Ob(f"{PROP}/{name}/two_units_occupied", "sound", clause=occ >= 2, guard=a.sched))
        for w in ctx.ws:
            obs += capacity_obs(name, w, w.name)
        return obs

    sh = Shape(name, build, obligations)
    sh.on_exception = lambda path: []  # rejected at creation: nothing is returned, nothing to check
    sh.on_grid_exception = lambda pt, e: True
    return sh


def shape_cumulative_in_lists(ntasks, optmask):
    """every task picks one of [W1, CW] (CW cumulative of size 2): picking CW means occupying at least one of its
    elementary workers for the whole span, not picking it means occupying none; at no instant more than two
    tasks are on CW; each elementary worker serves one task at a time"""
    name = f"cumulative_in_selection_lists/{ntasks}tasks/opt{''.join(str(int(b)) for b in optmask)}"

    def build(P):
        pb, hv = new_problem(P, False)
        tis = _tasks(P, tuple(["fixed", "var", "fixed", "fixed"][:ntasks]), optmask)
        w1 = ps.Worker(name="W1")
        cw = ps.CumulativeWorker(name="CW", size=2)
        sws = []
        named = {}
        for i, t in enumerate(tis):
            sw = ps.SelectWorkers(list_of_workers=[w1, cw], nb_workers_to_select=1)
            t.obj.add_required_resource(sw)
            sws.append(sw)
            named[f"sel{i}_W1"] = sw._selection_dict[w1]
            named[f"sel{i}_CW"] = sw._selection_dict[cw]
        return Ctx(problem=pb, tis=tis, w1=w1, cw=cw, sws=sws, named=named)

    def obligations(ctx):
        obs = []
        units = ctx.cw._cumulative_workers
        on_cw = []
        for i, (t, sw) in enumerate(zip(ctx.tis, ctx.sws)):
            sel_w, sel_c = sw._selection_dict[ctx.w1], sw._selection_dict[ctx.cw]
            obs.append(Ob(f"{PROP}/{name}/count_{i}", "sound", clause=b2i(sel_w) + b2i(sel_c) == 1))
            on_cw.append(And(t.sched, sel_c, t.e > t.s))
            ivs = [u._busy_intervals.get(t.obj) for u in units]
            if any(iv is None for iv in ivs):
                # (an implementation in which the cumulative worker holds the interval itself)
                own = ctx.cw._busy_intervals.get(t.obj)
                if own is not None:
                    obs.append(Ob(f"{PROP}/{name}/picked_cumulative_busy_eq_span_{i}", "sound", clause=And(own[0] == t.s, own[1] == t.e), guard=And(t.sched, sel_c)))
                continue
            held = [And(bs == t.s, be == t.e) for bs, be in ivs]
            obs.append(Ob(f"{PROP}/{name}/picked_cumulative_occupies_a_unit_{i}", "sound", clause=Or(held), guard=And(t.sched, sel_c)))
            obs.append(Ob(f"{PROP}/{name}/unpicked_cumulative_occupies_no_unit_{i}", "sound", clause=And([And(bs < 0, be < 0) for bs, be in ivs]), guard=Not(sel_c)))
            obs.append(Ob(f"{PROP}/{name}/unit_interval_is_span_or_parked_{i}", "sound", clause=And([Or(h, And(bs < 0, be < 0)) for h, (bs, be) in zip(held, ivs)]), guard=t.sched))
        for grp in itertools.combinations(range(len(ctx.tis)), 3):
            shared = And([And([ctx.tis[x].s < ctx.tis[y].e for y in grp]) for x in grp])
            obs.append(Ob(f"{PROP}/{name}/at_most_two_tasks_at_once_{''.join(map(str, grp))}", "sound", clause=Not(And([on_cw[g] for g in grp] + [shared]))))
        for u in units:
            obs += capacity_obs(name, u, u.name)
        obs += capacity_obs(name, ctx.w1, "W1")
        return obs

    return Shape(name, build, obligations)


def shape_cumulative(size, ntasks, kinds, optmask):
    name = f"cumulative/size{size}/{'+'.join(kinds)}/opt{''.join(str(int(b)) for b in optmask)}"

    def build(P):
        pb, hv = new_problem(P, False)
        tis = _tasks(P, kinds, optmask)
        cw = ps.CumulativeWorker(name="CW", size=size)
        for t in tis:
            t.obj.add_required_resource(cw)
        return Ctx(problem=pb, tis=tis, cw=cw)

    def obligations(ctx):
        units = ctx.cw._cumulative_workers
        obs = []
        holds = []
        for t in ctx.tis:
            h = Or([active(u._busy_intervals[t.obj]) for u in units])
            holds.append(b2i(h))
            # a scheduled task holds at least one unit for its whole span
            whole = Or([And(u._busy_intervals[t.obj][0] == t.s, u._busy_intervals[t.obj][1] == t.e) for u in units])
            obs.append(Ob(f"{PROP}/{name}/holds_a_unit_{t.name}", "sound", clause=whole, guard=t.sched))
            for u in units:
                bs, be = u._busy_intervals[t.obj]
                obs.append(Ob(f"{PROP}/{name}/unit_span_or_past_{t.name}_{u.name[-1]}", "sound",
                              clause=Or(And(bs == t.s, be == t.e), And(bs < 0, be < 0))))
        obs.append(Ob(f"{PROP}/{name}/at_most_size_at_any_instant", "sound", clause=Sum(holds) <= size))
        for u in units:
            obs += capacity_obs(name, u, u.name[-1])
        return obs

    return Shape(name, build, obligations)


def shape_work(mode, prods, optional=False):
    """mode: 'static2' two workers directly | 'select' one direct + a selection of 1 among 2."""
    name = f"work/{mode}/prod_{'_'.join(str(p) for p in prods)}/{'opt' if optional else 'mand'}"

    def build(P):
        pb, hv = new_problem(P, False)
        a = make_task(P, "A", "var", optional=optional, work_amount=True)
        ws = []
        for i, p in enumerate(prods):
            if p == "sym":
                ws.append(ps.Worker(name=f"W{i + 1}", productivity=P.int(f"prod{i + 1}", ph=1, lo=0, hi=8)))
            else:
                ws.append(ps.Worker(name=f"W{i + 1}", productivity=p))
        prodv = [P.v(f"prod{i + 1}") if p == "sym" else p for i, p in enumerate(prods)]
        if mode == "static2":
            for w in ws:
                a.obj.add_required_resource(w)
        elif mode == "dynamic":
            a.obj.add_required_resource(ws[0])
            for w in ws[1:]:
                a.obj.add_required_resource(w, dynamic=True)
        else:
            a.obj.add_required_resource(ws[0])
            a.obj.add_required_resource(ps.SelectWorkers(list_of_workers=ws[1:], nb_workers_to_select=1, kind="min"))
        return Ctx(problem=pb, a=a, ws=ws, prodv=prodv)

    def obligations(ctx):
        a = ctx.a
        work = Sum([to_z3(p) * (w._busy_intervals[a.obj][1] - w._busy_intervals[a.obj][0]) for w, p in zip(ctx.ws, ctx.prodv)])
        return [Ob(f"{PROP}/{name}/work_amount_reached", "sound", clause=work >= a.work_amount, guard=a.sched,
                   extra={"vacuous_ok": all(p == 0 for p in prods)})]

    return Shape(name, build, obligations)


def shape_work_default(kind, size=None, prod=None):
    """the work of a task done by one plain or cumulative worker whose productivity is the documented default (1) or
    a declared value: whatever the share of each elementary worker, the worker as a whole delivers at most
    productivity x duration, so a scheduled task has  productivity * (end - start) >= work amount"""
    name = f"work_one_resource/{kind}" + (f"_size{size}" if size else "") + f"/productivity_{'default' if prod is None else prod}"

    def build(P):
        pb, hv = new_problem(P, False)
        a = make_task(P, "A", "var", work_amount=True)
        kw = {} if prod is None else {"productivity": prod}
        res = ps.Worker(name="W", **kw) if kind == "worker" else ps.CumulativeWorker(name="CW", size=size, **kw)
        a.obj.add_required_resource(res)
        return Ctx(problem=pb, a=a)

    def obligations(ctx):
        a = ctx.a
        total = 1 if prod is None else prod
        return [Ob(f"{PROP}/{name}/work_amount_within_the_declared_productivity", "sound", clause=total * (a.e - a.s) >= a.work_amount, guard=a.sched)]

    return Shape(name, build, obligations)


def shapes(tier):
    out = []
    thorough = tier == "thorough"
    for kind, size, prod in (("worker", None, None), ("worker", None, 3), ("cumulative", 2, None), ("cumulative", 2, 3), ("cumulative", 3, 4)):
        out.append(shape_work_default(kind, size, prod))
    # static assignments, delay-in / early-out
    for delays in ("none", "in", "out", "both"):
        for kinds in ([("fixed", "fixed"), ("var", "fixed")] + ([("fixed", "var", "zero"), ("var", "var", "fixed", "fixed")] if thorough else [("fixed", "var", "fixed")] if delays == "both" else [])):
            masks = [tuple([False] * len(kinds)), tuple([True] + [False] * (len(kinds) - 1))]
            if thorough:
                masks.append(tuple([True] * len(kinds)))
            for m in masks:
                out.append(shape_static(kinds, m, delays))
    for between in ("unavailable", "workload", "indicator"):
        out.append(shape_static(("fixed", "fixed", "fixed"), (False, False, False), "none", between=between))
    out.append(shape_static(("fixed", "var"), (False, False), "both", second_solver=True))
    # release / due dates (deadline or soft) on tasks sharing a worker: capacity must not depend on them
    for rel in [(False, True), (True, False), (True, True)]:
        for due in [("soft", None), (None, "soft"), ("soft", "deadline"), ("deadline", "soft"), ("soft", "soft")]:
            if thorough or (rel, due) in [((False, True), ("soft", None)), ((True, False), (None, "soft")), ((True, True), ("soft", "deadline")),
                                          ((True, True), ("soft", "soft")), ((False, True), ("deadline", "soft"))]:
                out.append(shape_static(("fixed", "fixed"), (False, False), "none", dated=(rel, due)))
    out.append(shape_static(("fixed", "var", "fixed"), (False, True, False), "none", dated=((True, True, False), ("soft", "soft", "deadline"))))
    out.append(shape_static(("fixed", "fixed"), (False, False), "both", horizon=True))
    # dynamic
    for kinds in [("fixed", "fixed"), ("var", "fixed"), ("var", "var", "fixed")]:
        for m in [tuple([False] * len(kinds)), tuple([True] * len(kinds))]:
            out.append(shape_dynamic(kinds, m))
    # selections
    for nw in ((2, 3, 4) if thorough else (2, 3)):
        for kind in ("exact", "min", "max"):
            for n in range(1, nw + 2):
                kk = [("fixed", "fixed"), ("var", "fixed")] if (thorough or n == 1) else [("fixed", "fixed")]
                for kinds in kk:
                    out.append(shape_select(nw, kind, n, kinds, (False, False)))
                if n <= nw:
                    out.append(shape_select(nw, kind, n, ("fixed", "var"), (True, False), other_direct=False))
    out.append(shape_select(3, "min", 1, ("fixed", "fixed"), (False, False), cumul_in_list=True))
    for nt, m in ((2, (False, False)), (3, (False, False, False)), (3, (True, False, False))) + (((4, (False,) * 4),) if thorough else ()):
        out.append(shape_cumulative_in_lists(nt, m))
    from checks import c01 as _c01, c05 as _c05
    for cname in _c05._constraint_classes():
        for role in (_c01.ROLES if thorough else ("negated", "alternative")):
            if role != "plain" and cname == "ForceApplyNOptionalConstraints":
                continue
            out.append(class_context_shape(cname, role))
    mode_lists = [("delayed", "static"), ("static", "delayed"), ("dynamic", "static"), ("static", "dynamic"), ("static", "static"), ("delayed", "dynamic", "static")]
    if thorough:
        mode_lists += [m for m in itertools.product(("static", "delayed", "dynamic"), repeat=3) if m not in mode_lists]
    for modes in mode_lists:
        out.append(shape_several_shared_workers(modes, 2, (False, False)))
        if thorough or modes in (("delayed", "static"), ("dynamic", "static")):
            out.append(shape_several_shared_workers(modes, 3, (False, False, False)))
            out.append(shape_several_shared_workers(modes, 2, (True, True)))
    for pattern in ("direct_then_select", "two_selections_sharing_a_worker", "cumulative_twice"):
        out.append(shape_twice(pattern))
    # cumulative workers
    for size, nt in ([(2, 3), (3, 4)] + ([(2, 4), (4, 5)] if thorough else [])):
        kinds = tuple((["fixed", "var", "fixed", "fixed", "var"])[:nt])
        out.append(shape_cumulative(size, nt, kinds, tuple([False] * nt)))
        out.append(shape_cumulative(size, nt, kinds, tuple([True] + [False] * (nt - 1))))
    # work amount
    grid = range(0, 7) if thorough else range(0, 4)
    for mode in ("static2", "select", "dynamic"):
        out.append(shape_work(mode, ("sym", "sym") if mode != "select" else ("sym", 1, 2)))
        out.append(shape_work(mode, (2, 3) if mode != "select" else (2, 1, 3), optional=True))
    for p1, p2 in itertools.product(grid, repeat=2):
        if (p1 + p2) % 2 == 0 or thorough:
            out.append(shape_work("static2", (p1, p2)))
    from checks import c03 as _c03d
    out += _c03d.default_shapes(PROP)
    return out


def main(tier):
    return run_property(
        PROP, "checks.c02", tier, "translation_validation",
        assumptions=[
            "added families: a cumulative worker as an alternative of 2-4 selections; a worker required twice by one task (rejected, or every requirement holds); 2-3 shared workers with mixed static / delayed / dynamic assignments; class-generic contexts: capacity, spans and selection counts of a concrete problem next to each of the 35 constraint classes in 2 (thorough 4) roles",
            "capacity is checked at one symbolic instant tau >= 0 that is free in the query, i.e. for all instants",
            "delay_in / early_out >= 0 (negative shifts are not meaningful inputs)",
            "productivities symbolic in [0, 8] (nonlinear products) and on a concrete grid; selection counts enumerated 1..m+1",
            "shape bounds: <= 4 tasks per worker, selections over <= 4 workers, cumulative size <= 4 with <= 5 tasks",
        ])
