"""Shared shape-building helpers (used by symbolic builds and by concrete replays alike)."""
import z3

import processscheduler as ps

from symx.formula import And, Or, Not, Implies, Sum, b2i, zmax, zmin, to_z3
from symx.harness import Ctx
from symx import formula


class TaskInfo:
    def __init__(self, **kw):
        self.dur = self.vmin = self.vmax = self.release = self.due = self.work_amount = self.priority = None
        self.allowed = None
        self.deadline = True
        self.__dict__.update(kw)

    @property
    def s(self):
        return self.obj._start

    @property
    def e(self):
        return self.obj._end

    @property
    def d(self):
        if self.kind == "var":
            return self.obj._duration
        if self.kind == "zero":
            return z3.IntVal(0)
        return to_z3(self.dur)

    @property
    def sched(self):
        return to_z3(self.obj._scheduled)

    def observables(self):
        out = [self.s, self.e]
        if self.kind == "var":
            out.append(self.obj._duration)
        if z3.is_expr(self.obj._scheduled):
            out.append(self.obj._scheduled)
        return out


def new_problem(P, horizon=False, name="pb", hz_ph=20):
    """horizon: False (none) | True (symbolic) | int (concrete)."""
    if horizon is True:
        h = P.int("hz", ph=hz_ph)
        pb = ps.SchedulingProblem(name=name, horizon=h)
        hv = P.v("hz")
    elif horizon is False or horizon is None:
        pb = ps.SchedulingProblem(name=name)
        hv = None
    else:
        pb = ps.SchedulingProblem(name=name, horizon=horizon)
        hv = horizon
    return pb, hv


def make_task(P, name, kind="fixed", optional=False, release=False, due=None, vmin=False,
              vmax=False, allowed=0, work_amount=False, priority=False, dur=None, dur_ph=2, pkey=None):
    """kind: zero|fixed|var. due: None|'deadline'|'soft'. Symbolic parameters are named <name>_<field>.
    `dur`: concrete duration override for fixed tasks (None => symbolic)."""
    kw = {"name": name, "optional": optional}
    ti = TaskInfo(name=name, kind=kind, optional=optional)
    ename, name = name, (pkey or name)  # parameters may be keyed independently of the element name
    if release:
        kw["release_date"] = P.int(f"{name}_rel", ph=1)
        ti.release = P.v(f"{name}_rel")
    if due is not None:
        kw["due_date"] = P.int(f"{name}_due", ph=50)
        ti.due = P.v(f"{name}_due")
        ti.deadline = due == "deadline"
        kw["due_date_is_deadline"] = ti.deadline
    if work_amount:
        kw["work_amount"] = P.int(f"{name}_wa", ph=1)
        ti.work_amount = P.v(f"{name}_wa")
    if priority:
        kw["priority"] = P.int(f"{name}_prio", ph=1, lo=0, hi=8)
        ti.priority = P.v(f"{name}_prio")
    if kind == "zero":
        ti.obj = ps.ZeroDurationTask(**kw)
    elif kind == "fixed":
        if dur is None:
            kw["duration"] = P.int(f"{name}_dur", ph=dur_ph)
            ti.dur = P.v(f"{name}_dur")
        else:
            kw["duration"] = dur
            ti.dur = dur
        ti.obj = ps.FixedDurationTask(**kw)
    elif kind == "var":
        if vmin:
            kw["min_duration"] = P.int(f"{name}_min", ph=1)
            ti.vmin = P.v(f"{name}_min")
        else:
            ti.vmin = 0
        if vmax:
            kw["max_duration"] = P.int(f"{name}_max", ph=5)
            ti.vmax = P.v(f"{name}_max")
        if allowed:
            kw["allowed_durations"] = [P.int(f"{name}_al{i}", ph=i + 1) for i in range(allowed)]
            ti.allowed = [P.v(f"{name}_al{i}") for i in range(allowed)]
        ti.obj = ps.VariableDurationTask(**kw)
    else:
        raise ValueError(kind)
    return ti


def task_must(ti, H, horizon):
    """S_must of a single task (Appendix A, row 'any task'); guard = scheduled."""
    cl = [("start_nonneg", ti.s >= 0), ("end_le_horizon", ti.e <= H)]
    if horizon is not None:
        cl.append(("end_le_user_horizon", ti.e <= horizon))
    if ti.kind == "fixed":
        cl.append(("duration_fixed", ti.e - ti.s == ti.dur))
    elif ti.kind == "zero":
        cl.append(("duration_zero", ti.e == ti.s))
    else:
        d = ti.obj._duration
        cl.append(("duration_var", ti.e - ti.s == d))
        cl.append(("duration_min", d >= ti.vmin))
        cl.append(("duration_nonneg", d >= 0))
        if ti.vmax is not None:
            cl.append(("duration_max", d <= ti.vmax))
        if ti.allowed is not None:
            cl.append(("duration_allowed", Or([d == a for a in ti.allowed])))
    if ti.release is not None:
        cl.append(("release", ti.s >= ti.release))
    if ti.due is not None and ti.deadline:
        cl.append(("deadline", ti.e <= ti.due))
    return cl


def task_valid(ti, H, horizon):
    """S_valid of a single scheduled task: conjunction of its S_must clauses (they are exact)."""
    return And([c for _, c in task_must(ti, H, horizon)])


def busy(worker, ti):
    return worker._busy_intervals[ti.obj]


def buffer_witness(phi):
    """Explicit witnesses for the non-integer auxiliaries of the buffer encoding, read off the
    assertions themselves: the mapping array is the store chain of all its declared accesses, each
    quantity function is the lambda its forall-definition describes. A wrong witness can only make
    the query spuriously sat, which the replay then rejects (inconclusive, never a verdict)."""
    consts, _ = formula.constants(phi)
    out = list(phi)
    for name, c in consts.items():
        if not z3.is_array(c):
            continue
        def access(a):
            """(t, q) when the assertion declares the access M[t] = q, in either of its two spellings:
            M == Store(M, t, q)  or  Select(M, t) == q"""
            if not z3.is_eq(a):
                return None
            for x, y in ((a.arg(0), a.arg(1)), (a.arg(1), a.arg(0))):
                if x.eq(c) and z3.is_store(y) and y.arg(0).eq(c):
                    return y.arg(1), y.arg(2)
                if z3.is_select(x) and x.arg(0).eq(c) and c.decl().name() not in formula.constants([y])[0]:
                    return x.arg(1), y
            return None

        stores = [acc for acc in (access(a) for a in out) if acc is not None]
        M = z3.K(z3.IntSort(), z3.IntVal(0))
        for t, q in stores:
            M = z3.Store(M, t, q)
        new = []
        for a in out:
            acc = access(a)
            if acc is not None:
                a = z3.Select(M, acc[0]) == acc[1]
            else:
                a = z3.substitute(a, (c, M))
            new.append(z3.simplify(a, expand_select_store=True))
        out = new
    fsubs = []
    for a in out:
        if z3.is_quantifier(a) and a.is_forall() and z3.is_app_of(a.body(), z3.Z3_OP_ITE):
            cond, th = a.body().arg(0), a.body().arg(1)
            if z3.is_eq(cond) and z3.is_eq(th) and z3.is_app(th.arg(0)) and th.arg(0).num_args() == 1:
                f = th.arg(0).decl()
                fsubs.append((f, z3.If(z3.Var(0, z3.IntSort()) == cond.arg(1), th.arg(1), z3.IntVal(0))))
    if fsubs:
        out = [z3.simplify(z3.substitute_funs(a, *fsubs)) for a in out]
    return out


