"""C16 - exports reproduce the data exactly (partly applicable, see DESIGN 4 C16 / 10).
Decided by the solver:
  * SMT-LIB: the text written by the real export_to_smt2 is parsed back (z3's SMT-LIB2 parser) and proved
    equivalent (two quantified halves) to the constraint system the real solve() hands to check() (captured
    with the solver stub), for both optimisers, on parametric problems with symbolic parameters;
  * data frame: the real to_df() runs on a solution whose fields are z3 terms (identity model) with a
    recording DataFrame: every cell is proved equal to the reported field under phi_real;
  * Excel: the real export_solution_to_excel_file runs on the same symbolic solution with a recording
    Workbook: the cells written for every assignment / scheduled task cover exactly columns
    start+1 .. max(start+1, end) of the right row, nothing is written for unscheduled tasks, indicator rows
    carry the reported value.
Outside symbolic reach (compiled pydantic-core / pandas / zip writers): the byte-level JSON, CSV and XLSX
serialisers and JSON parsing; they are exercised by a concrete layer only (real solutions, round trips),
which is trace validation and not the deciding step."""
import io
import itertools
import json
import os
import tempfile
import warnings

import z3

import processscheduler as ps

from symx import engine, formula, stubs
from symx.formula import And, Or, Not
from symx.harness import library_failure, confirm_library_failure, Shape, Ob, Ctx, run_property, quiet
from checks import c11, c14

PROP = "C16"


# ---- SMT-LIB export --------------------------------------------------------------------------------------
def smt2_shape(variant, optimizer, when, max_iter=None):
    name = f"smt2/{variant}/{optimizer}/export_{when}" + (f"/max_iter={max_iter}" if max_iter else "")

    def build(P):
        cfg = {"optimizer": "optimize"} if optimizer == "optimize" else {}
        if max_iter:
            cfg["max_iter"] = max_iter
        pb, obs = c14.build_rich(P, dict(c14.CANON), {}, variant)
        tmp = tempfile.mkdtemp(prefix="c16_")
        fn = os.path.join(tmp, "p.smt2")
        # the exporting solver runs against the stub as well (its printers are z3's own, applied to exactly
        # what the real code handed over); 'after_solve': one successful solve() precedes the export
        try:
            with warnings.catch_warnings():
                warnings.simplefilter("ignore")
                script0 = [z3.sat, z3.sat, z3.sat] if max_iter else [z3.sat, z3.unsat, z3.unsat]
                with stubs.stubbed(P.ex, max_checks=3, script=script0, core_mode="all") as (solvers0, proxy0):
                    solver = ps.SchedulingSolver(problem=pb, **cfg)
                    if when == "after_solve":
                        solver.solve()
                    solver.export_to_smt2(fn)
            text = open(fn).read()
        finally:
            import shutil
            shutil.rmtree(tmp, ignore_errors=True)  # (also when the explorer abandons the path)
        # what solve() checks: a second, identically declared problem solved against the stub
        pb2, obs2 = c14.build_rich(P, dict(c14.CANON), {}, variant)
        holder = {}
        with warnings.catch_warnings():
            warnings.simplefilter("ignore")
            with stubs.stubbed(P.ex, max_checks=1, script=[z3.unsat], holder=holder, core_mode="all") as (solvers, proxy):
                s2 = ps.SchedulingSolver(problem=pb2, **cfg)
                s2.solve()
        stub = solvers[0]
        checked = list(stub.checks[0]["snapshot"])
        return Ctx(problem=pb2, text=text, checked=checked, objectives=list(stub.objectives), optimizer=optimizer)

    def obligations(ctx):
        return [Ob(f"{PROP}/{name}/{n}", "custom", fn=f, replayer="checks.c16:replay_smt2") for n, f in
                (("export_parses", ob_parses), ("export_admits_nothing_more", ob_exp_sound), ("export_loses_nothing", ob_exp_complete))]

    sh = Shape(name, build, obligations, initialize=False)
    sh.grid = False
    sh.spec = (variant, optimizer, when)
    sh.max_iter = max_iter
    return sh


def _parse(ctx):
    if ctx.optimizer == "optimize":
        o = z3.Optimize()
        o.from_string(ctx.text)
        return list(o.assertions()), list(o.objectives())
    return list(z3.parse_smt2_string(ctx.text)), []


def _w(ctx, path, what, m=None):
    base = [formula.to_z3(x) for x in list(path.assume) + list(path.pc)]
    if m is None:
        v, m, _ = formula.solve(base, 20000)
        if v != "sat":
            return {"status": "unknown", "note": what}
    params = {n: (formula.val(m, t) if z3.is_expr(t) else t) for n, t in ctx.P.terms.items()}
    return {"status": "sat", "queries": 1, "witness": {"params": params, "pins": {}, "what": what}}


def ob_parses(ctx, path):
    try:
        asst, objs = _parse(ctx)
    except z3.Z3Exception as e:
        return _w(ctx, path, f"the exported SMT-LIB text does not parse: {e}")
    if ctx.optimizer == "optimize" and len(objs) != len(ctx.objectives):
        return _w(ctx, path, f"exported script carries {len(objs)} objectives, the solver optimises {len(ctx.objectives)}")
    return {"status": "unsat", "queries": 0}


def _halves(ctx, path, valid, phi, what):
    base = [formula.to_z3(x) for x in list(path.assume) + list(path.pc)]
    cv, _ = formula.constants(valid)
    cp, _ = formula.constants(phi)
    pn = {t.decl().name() for t in ctx.P.terms.values() if z3.is_expr(t)}
    # symbols handed out by the solver stub (model values m@k@...) are not auxiliaries: they denote the
    # values of the models found before the export, constrained by the contract facts of the path
    aux = [c for n, c in cp.items() if n not in cv and n not in pn and not n.startswith("m@")]
    # first an explicit witness for the private constants (the two systems come out of the same code, so their
    # fresh / uid-named constants line up by position): a quantifier-free query; if it does not close, the quantified one
    if aux:
        inst = formula.positional_witness(list(phi), aux, list(valid))
        if inst is not None and formula.solve(base + list(valid) + [z3.Not(z3.And(inst))], 20000, want_model=False)[0] == "unsat":
            return {"status": "unsat", "queries": 1, "note": "positional witness"}
    lost = formula.forall(aux, z3.Not(z3.And(phi)))
    v, m, _ = formula.solve_shrunk(base + list(valid) + [lost], 30000, quantified=bool(aux))
    if v == "unsat":
        return {"status": "unsat", "queries": 1}
    if v == "sat":
        r = _w(ctx, path, what, m)
        consts = {**cv}
        r["witness"]["pins"] = {k: val for k, val in formula.model_dict(m, consts).items() if not k.startswith(("p_", "__")) and "!" not in k}
        return r
    return {"status": "unknown", "queries": 1}


def ob_exp_sound(ctx, path):
    asst, _ = _parse(ctx)
    return _halves(ctx, path, asst, ctx.checked, "a model of the exported script is not a model of the system the solver checks")


def ob_exp_complete(ctx, path):
    asst, _ = _parse(ctx)
    return _halves(ctx, path, ctx.checked, asst, "a model of the system the solver checks is not a model of the exported script")


def replay_smt2(desc):
    """real code, real z3, concrete parameters: export (before / after a real solve), parse the file back;
    the exported script must be satisfiable exactly when a freshly initialised solver's system is, the
    witness schedule must be judged alike by both, and a schedule just returned by solve() must be a model of
    the export"""
    import symx.harness as H

    shape = H.get_shape(desc["module"], desc["shape"])
    variant, optimizer, when = shape.spec
    w = desc["witness"]
    cfg = {"optimizer": "optimize"} if optimizer == "optimize" else {}
    if getattr(shape, "max_iter", None):
        cfg["max_iter"] = shape.max_iter
    returned = None
    with quiet(), warnings.catch_warnings():
        warnings.simplefilter("ignore")
        P = engine.Params("conc", values=w["params"])
        pb, obs = c14.build_rich(P, dict(c14.CANON), {}, variant)
        solver = ps.SchedulingSolver(problem=pb, **cfg)
        tmp = tempfile.mkdtemp(prefix="c16r_")
        fn = os.path.join(tmp, "p.smt2")
        if when == "after_solve":
            returned = solver.solve()
        try:
            solver.export_to_smt2(fn)
            text = open(fn).read()
            err = None
        except Exception as e:
            text, err = "", e
        if os.path.exists(fn):
            os.unlink(fn)
        os.rmdir(tmp)
        pb2, obs2 = c14.build_rich(engine.Params("conc", values=w["params"]), dict(c14.CANON), {}, variant)
        s2 = ps.SchedulingSolver(problem=pb2, **cfg)
        s2.initialize()
        own = list(s2._solver.assertions())
    engine.reset_z3_globals()
    if err is not None:
        print(f"CONFIRMED: export_to_smt2 raised {type(err).__name__}: {err}")
        return 1
    try:
        if optimizer == "optimize":
            o = z3.Optimize()
            o.from_string(text)
            exported = list(o.assertions())
        else:
            exported = list(z3.parse_smt2_string(text))
    except z3.Z3Exception as e:
        print(f"CONFIRMED: exported text does not parse: {e}")
        return 1

    def verdict(asst, extra=()):
        sv = z3.Solver()
        sv.add(asst)
        sv.add(list(extra))
        return sv.check()

    ra, rb = verdict(exported), verdict(own)
    print(f"replay: exported script -> {ra}; freshly initialised solver's system -> {rb}")
    if ra != rb and z3.unknown not in (ra, rb):
        print("CONFIRMED: the exported SMT-LIB script and the problem's constraint system disagree on satisfiability")
        return 1
    pins = []
    for n, v in (w.get("pins") or {}).items():
        if "@" in n or "!" in n:
            continue
        pins.append(z3.Bool(n) == z3.BoolVal(v) if isinstance(v, bool) else z3.Int(n) == v)
    pa, pb_ = verdict(exported, pins), verdict(own, pins)
    print(f"replay: witness schedule: exported script -> {pa}; problem's system -> {pb_}")
    if pa != pb_ and z3.unknown not in (pa, pb_):
        print("CONFIRMED: the exported SMT-LIB script and the problem's constraint system disagree on the witness schedule")
        return 1
    # ... and by what solve() itself decides (the system of an initialised solver need not be what solve() checks)
    def solves(with_pins):
        with quiet(), warnings.catch_warnings():
            warnings.simplefilter("ignore")
            pb3, _ = c14.build_rich(engine.Params("conc", values=w["params"]), dict(c14.CANON), {}, variant)
            if with_pins:
                consts3, _ = formula.constants([a for c in pb3.constraints.values() for a in c.get_z3_assertions()] +
                                               [a for t in pb3.tasks.values() for a in t.get_z3_assertions()] + list(pb3.get_z3_assertions()))
                k = 0
                for n, v in (w.get("pins") or {}).items():
                    if "@" in n or "!" in n or n not in consts3:
                        continue
                    c = consts3[n]
                    ps.ConstraintFromExpression(name=f"replay_pin_{k}", expression=(c == (z3.BoolVal(v) if isinstance(v, bool) else v)))
                    k += 1
            s3 = ps.SchedulingSolver(problem=pb3, **{k_: v_ for k_, v_ in cfg.items() if k_ != "max_iter"})
            r = bool(s3.solve())
        engine.reset_z3_globals()
        return z3.sat if r else z3.unsat
    for with_pins, ref in ((False, ra), (True, pa)):
        got = solves(with_pins)
        print(f"replay: solve() {'with the witness schedule pinned' if with_pins else 'on the problem'} -> {got}; exported script -> {ref}")
        if ref != z3.unknown and got != ref:
            print("CONFIRMED: solve() and the exported SMT-LIB script disagree" + (" on the witness schedule" if with_pins else " on satisfiability"))
            return 1
    if returned:
        sched = []
        for n, t in returned.tasks.items():
            if t.scheduled:
                sched += [z3.Int(f"{n}_start") == t.start, z3.Int(f"{n}_end") == t.end]
        rs = verdict(exported, sched)
        print(f"replay: the schedule solve() just returned is a model of the export: {rs}")
        if rs == z3.unsat and verdict(own, sched) == z3.sat:
            print("CONFIRMED: the schedule returned by solve() is not a model of the script exported afterwards")
            return 1
    return 0


# ---- SMT-LIB export, class by class (real z3, concrete problems) ---------------------------------------------
def _sweep_elements():
    """every public constraint / indicator / objective class (C18's acceptance sweep), plus a concurrent buffer"""
    import inspect
    from checks import c18
    from processscheduler.base import BaseModelWithJson
    out = []
    for cname in sorted(dir(ps)):
        cls = getattr(ps, cname)
        if not (inspect.isclass(cls) and issubclass(cls, BaseModelWithJson)) or cname in c18.SWEEP_SKIP:
            continue
        if cname.endswith(("Task", "Worker", "Workers", "Function", "Buffer")) and cname not in ("TaskLoadBuffer", "TaskUnloadBuffer"):
            continue  # tasks, resources, functions and buffers are part of the environment itself
        out.append(cname)
    return out + ["ConcurrentBufferAccesses"]


def _declare_element(cname):
    from checks import c18
    e = c18._env()
    if cname == "ConcurrentBufferAccesses":
        b = ps.ConcurrentBuffer(name="CB", initial_level=3, lower_bound=0)
        ps.TaskUnloadBuffer(task=e["t2"], buffer=b, quantity=2)
        ps.TaskLoadBuffer(task=e["t3"], buffer=b, quantity=1)
        return
    cls = getattr(ps, cname)
    is_obj = cname.startswith("Objective")
    req = c18.OBJECTIVE_ARGS.get(cname, []) if is_obj else [f for f, fi in cls.model_fields.items() if fi.is_required()]
    kw = {r: c18.REQUIRED[r](e) for r in req}
    if cname.startswith("OptionalTask"):
        kw.update({k: e["o1"] for k in ("task", "task_2") if k in kw})
    if cname == "IndicatorBounds":
        kw["lower_bound"] = 0
    if cname in ("TaskLoadBuffer", "TaskUnloadBuffer"):
        kw["task"] = e["t2"]
    cls(**kw)


def smt2_class_shape(cname):
    name = f"smt2_classes/{cname}"

    def build(P):
        return Ctx(problem=None)

    @library_failure
    def fn(ctx, path):
        problems = check_smt2_class(cname)
        if problems:
            return {"status": "sat", "queries": 2, "witness": {"params": {}, "pins": {}, "what": problems[0]}}
        return {"status": "unsat", "queries": 2}

    def obligations(ctx):
        return [Ob(f"{PROP}/{name}/export_denotes_the_checked_system", "custom", fn=fn, replayer="checks.c16:replay_smt2_class")]

    sh = Shape(name, build, obligations, initialize=False)
    sh.grid = False
    sh.cname = cname
    return sh


def check_smt2_class(cname):
    """export with the real solver, parse the text back, and let z3 decide that the parsed script and the solver's own
    assertions are the same constraint system (same constant names on both sides: two implication queries)"""
    problems = []
    with quiet(), warnings.catch_warnings():
        warnings.simplefilter("ignore")
        pb = ps.SchedulingProblem(name="exp", horizon=12)
        _declare_element(cname)
        solver = ps.SchedulingSolver(problem=pb, **({"optimizer": "optimize"} if cname.startswith("Objective") and cname < "ObjectiveMinimize" else {}))
        tmp = tempfile.mkdtemp(prefix="c16k_")
        fn = os.path.join(tmp, "p.smt2")
        try:
            solver.export_to_smt2(fn)
            text = open(fn).read()
        finally:
            if os.path.exists(fn):
                os.unlink(fn)
            os.rmdir(tmp)
        own = list(solver._solver.assertions())
        is_opt = isinstance(solver._solver, z3.Optimize)
    engine.reset_z3_globals()
    try:
        if is_opt:
            o = z3.Optimize()
            o.from_string(text)
            exported = list(o.assertions())
            if len(o.objectives()) != len(solver._solver.objectives()):
                problems.append(f"{cname}: exported script has {len(o.objectives())} objectives, the solver {len(solver._solver.objectives())}")
        else:
            exported = list(z3.parse_smt2_string(text))
    except z3.Z3Exception as e:
        return [f"{cname}: the exported text does not parse: {e}"]
    for a, b, what in ((exported, own, "a model of the export is not a model of the solver's system"), (own, exported, "a model of the solver's system is not a model of the export")):
        sv = z3.Solver()
        sv.set("timeout", 30000)
        sv.add(a)
        sv.add(z3.Not(z3.And(b)))
        r = sv.check()
        if r == z3.sat:
            problems.append(f"{cname}: {what}")
        elif r != z3.unsat:
            problems.append(f"{cname}: z3 could not compare the export with the system ({r})")
    return problems


@confirm_library_failure
def replay_smt2_class(desc):
    import symx.harness as H

    shape = H.get_shape(desc["module"], desc["shape"])
    problems = check_smt2_class(shape.cname)
    print("replay:", problems[:2])
    if problems and "could not compare" not in problems[0]:
        print("CONFIRMED: " + problems[0])
        return 1
    return 0


# ---- data frame and Excel on a symbolic solution --------------------------------------------------------
class RecDF:
    def __init__(self, data):
        self.data = data

    def to_csv(self, *a, **kw):
        return ""


class RecSheet:
    def __init__(self, name, log):
        self.name, self.log = name, log

    def write(self, *a):
        self.log.append((self.name, "write", a))

    def merge_range(self, *a):
        self.log.append((self.name, "merge", a))

    def __getattr__(self, n):
        return lambda *a, **k: None


class RecFormat:
    def __getattr__(self, n):
        return lambda *a, **k: None


class RecWorkbook:
    def __init__(self, fn):
        self.log = []
        self.closed = False
        RecWorkbook.last = self

    def add_worksheet(self, name):
        return RecSheet(name, self.log)

    def add_format(self, *a):
        return RecFormat()

    def close(self):
        self.closed = True


class RecXlsx:
    Workbook = RecWorkbook


def table_shape(variant, what):
    name = f"{what}/{variant}"

    def build(P):
        import processscheduler.solution as pssol
        import processscheduler.excel_io as psx

        pb, tis, ws = c11.declare(P, variant, "none")
        solver = ps.SchedulingSolver(problem=pb)
        solver.initialize()
        phi = list(solver._solver.assertions())
        ex = P.ex
        ex.context = list(phi)
        model = stubs.IdModel(ex)
        ex.all_sym = True
        rec = {}
        try:
            solution = solver.build_solution(model)
            if what == "dataframe":
                saved = pssol.df
                pssol.df = RecDF
                try:
                    rec["df"] = solution.to_df()
                finally:
                    pssol.df = saved
            else:
                saved = psx.xlsxwriter
                psx.xlsxwriter = RecXlsx
                try:
                    solution.to_excel_file("unused.xlsx", colors=(variant == "workers"))
                    rec["wb"] = RecWorkbook.last
                finally:
                    psx.xlsxwriter = saved
        finally:
            ex.all_sym = False
            ex.context = []
        return Ctx(problem=pb, tis=tis, ws=ws, phi=phi, solution=solution, rec=rec)

    def obligations(ctx):
        f = ob_dataframe if what == "dataframe" else ob_excel
        return [Ob(f"{PROP}/{name}/cells_equal_reported_values", "custom", fn=f, replayer="checks.c16:replay_table", extra={"what": what})]

    sh = Shape(name, build, obligations, initialize=False)
    sh.grid = False
    sh.spec = (variant, what)
    from symx.harness import crash_obligations
    sh.on_exception = crash_obligations(PROP, name, "checks.c16:replay_table", "the export of a valid solution does not succeed")
    sh.assumptions = lambda P: ([P.v("din") + P.v("eout") <= P.v("A_dur")] if "din" in P.terms else [])
    return sh


def _valid(ctx, path, goal, what):
    base = [formula.to_z3(x) for x in list(path.assume) + list(path.pc) + list(ctx.extra_assume)] + list(ctx.phi)
    v, m, _ = formula.solve_shrunk(base + [Not(formula.to_z3(goal))], 30000)
    if v == "unsat":
        return None
    if v == "sat":
        consts, _ = formula.constants(base)
        params = {n: (formula.val(m, t) if z3.is_expr(t) else t) for n, t in ctx.P.terms.items()}
        pins = {k: v_ for k, v_ in formula.model_dict(m, consts).items() if not k.startswith(("p_", "__choice")) and "!" not in k}
        return {"status": "sat", "queries": 1, "witness": {"params": params, "pins": pins, "what": what}}
    return {"status": "unknown", "queries": 1, "note": what}


def ob_dataframe(ctx, path):
    data = ctx.rec["df"].data
    sol = ctx.solution
    names = list(sol.tasks)
    if data.get("Task name") != names:
        return _valid(ctx, path, False, f"task names column {data.get('Task name')} != {names}")
    for col, fld in (("Start", "start"), ("End", "end"), ("Duration", "duration"), ("Scheduled", "scheduled"), ("Allocated Resources", "assigned_resources")):
        if col not in data or len(data[col]) != len(names):
            return _valid(ctx, path, False, f"column {col} missing or of wrong length")
        for i, n in enumerate(names):
            cell, want = data[col][i], getattr(sol.tasks[n], fld)
            if isinstance(want, (bool, list)) or isinstance(cell, (bool, list)):
                if cell != want:
                    return _valid(ctx, path, False, f"{col}[{n}] = {cell}, reported {fld} = {want}")
                continue
            r = _valid(ctx, path, formula.to_z3(cell) == formula.to_z3(want), f"{col}[{n}] = {cell} differs from the reported {fld} = {want}")
            if r:
                return r
    return {"status": "unsat", "queries": 3 * len(names)}


def ob_excel(ctx, path):
    wb = ctx.rec["wb"]
    sol = ctx.solution
    if not wb.closed:
        return _valid(ctx, path, False, "workbook never closed")
    log = wb.log

    def cells(sheet, row):
        out = []
        for sh, op, a in log:
            if sh != sheet:
                continue
            if op == "merge" and a[0] == row:
                out.append(("merge", a[1], a[3], a[4]))
            elif op == "write" and len(a) >= 3 and not isinstance(a[0], str) and a[0] == row and not (isinstance(a[1], int) and a[1] == 0):
                out.append(("write", a[1], a[1], a[2]))
        return out

    # resource view
    for i, (rname, rs) in enumerate(sol.resources.items()):
        got = cells("GANTT Resource view", i + 1)
        if len(got) != len(rs.assignments):
            return _valid(ctx, path, False, f"resource {rname}: {len(got)} cell groups written for {len(rs.assignments)} assignments")
        for (op, c1, c2, text), (tn, s, e) in zip(got, rs.assignments):
            s, e = formula.to_z3(s), formula.to_z3(e)
            last = z3.If(e > s + 1, e, s + 1)
            r = _valid(ctx, path, And(formula.to_z3(c1) == s + 1, formula.to_z3(c2) == last), f"resource {rname}, task {tn}: columns {c1}..{c2}, expected {s}+1..max({s}+1,{e})")
            if r:
                return r
            if text != tn:
                return _valid(ctx, path, False, f"resource {rname}: cell text {text} != task {tn}")
    # task view
    for i, (tn, ts) in enumerate(sol.tasks.items()):
        got = cells("GANTT Task view", i + 1)
        if not ts.scheduled:
            if got:
                return _valid(ctx, path, False, f"task {tn} is not scheduled but cells are written in its row at column {got[0][1]}")
            continue
        if len(got) != 1:
            return _valid(ctx, path, False, f"task {tn}: {len(got)} cell groups written")
        op, c1, c2, text = got[0]
        s, e = formula.to_z3(ts.start), formula.to_z3(ts.end)
        last = z3.If(e > s + 1, e, s + 1)
        r = _valid(ctx, path, And(formula.to_z3(c1) == s + 1, formula.to_z3(c2) == last), f"task {tn}: columns {c1}..{c2}, expected start+1..max(start+1,end)")
        if r:
            return r
        if text != ",".join(ts.assigned_resources):
            return _valid(ctx, path, False, f"task {tn}: cell text {text} != assigned resources {ts.assigned_resources}")
    # indicators
    rows = [(a[0], a[1], a[2]) for sh, op, a in log if sh == "Indicators" and op == "write" and not isinstance(a[0], str)]
    for i, (iname, ival) in enumerate(sol.indicators.items()):
        vals = [v for (r_, c_, v) in rows if r_ == i + 1 and c_ == 1]
        if len(vals) != 1 or not formula.to_z3(vals[0]).eq(formula.to_z3(ival)):
            return _valid(ctx, path, False, f"indicator {iname}: value cell {vals} != reported {ival}")
    return {"status": "unsat", "queries": len(sol.tasks) + len(sol.resources)}


@confirm_library_failure
def replay_table(desc):
    """real pandas / xlsxwriter on a real solution of the concrete instance with the witness schedule pinned:
    the data frame and the written workbook (read back) must show the reported values"""
    import symx.harness as H

    shape = H.get_shape(desc["module"], desc["shape"])
    variant, what = shape.spec
    w = desc["witness"]
    with quiet():
        P = engine.Params("conc", values=w["params"])
        pb, tis, ws = c11.declare(P, variant, "none")
        k = 0
        for n, v in (w.get("pins") or {}).items():
            if "!" in n:
                continue
            e = (z3.Bool(n) == z3.BoolVal(v)) if isinstance(v, bool) else (z3.Int(n) == v)
            ps.ConstraintFromExpression(name=f"pin{k}", expression=e)
            k += 1
        solver = ps.SchedulingSolver(problem=pb)
        sol = solver.solve()
    engine.reset_z3_globals()
    if not sol:
        print("replay: pinned schedule not admitted")
        return 0
    problems = check_tables(sol)
    print("replay:", problems[:3])
    if problems:
        print("CONFIRMED: " + problems[0])
        return 1
    return 0


def check_tables(sol):
    """real pandas / csv / xlsxwriter / json on a concrete solution"""
    problems = []
    df = sol.to_df()
    for i, (n, ts) in enumerate(sol.tasks.items()):
        row = df.iloc[i]
        got = (row["Task name"], int(row["Start"]), int(row["End"]), int(row["Duration"]), bool(row["Scheduled"]), list(row["Allocated Resources"]))
        want = (n, ts.start, ts.end, ts.duration, ts.scheduled, list(ts.assigned_resources))
        if got != want:
            problems.append(f"data frame row {got} != reported {want}")
    csv = sol.to_csv()
    if not isinstance(csv, str):
        problems.append(f"to_csv() without a file name returned {csv!r} instead of the csv text")
    else:
        lines = csv.strip().splitlines()
        if len(lines) != len(sol.tasks) + 1:
            problems.append("csv has a wrong number of rows")
        else:
            for ln, (n, ts) in zip(lines[1:], sol.tasks.items()):
                cells = ln.split(",")  # column layout is checked through the data frame (same source)
                if cells[0] != n:
                    problems.append(f"csv row {ln!r} does not start with the task name {n}")
    # csv written to a file must hold the same text
    tmpd = tempfile.mkdtemp(prefix="c16c_")
    cfn = os.path.join(tmpd, "s.csv")
    try:
        sol.to_csv(cfn)
        if not os.path.exists(cfn):
            problems.append("to_csv(file name) did not write the file")
        elif isinstance(csv, str) and open(cfn).read() != csv:
            problems.append("to_csv(file name) wrote a different text than to_csv() returns")
        # every separator, as text and as a file, re-read with the standard csv module (independent of pandas):
        # each row reproduces the reported values cell by cell
        import csv as _csv
        import io
        import ast

        for sep in (",", ";", "\t", "|"):
            texts = {}
            t = sol.to_csv(separator=sep)
            if not isinstance(t, str):
                problems.append(f"to_csv(separator={sep!r}) returned {t!r} instead of the csv text")
            else:
                texts["text"] = t
            if os.path.exists(cfn):
                os.unlink(cfn)
            sol.to_csv(cfn, separator=sep)
            if not os.path.exists(cfn):
                problems.append(f"to_csv(file name, separator={sep!r}) did not write the file")
            else:
                with open(cfn, newline="") as fh:
                    texts["file"] = fh.read()
            for kind, txt in texts.items():
                rows = list(_csv.reader(io.StringIO(txt), delimiter=sep))
                if not rows or rows[0][:6] != ["Task name", "Allocated Resources", "Start", "End", "Duration", "Scheduled"]:
                    problems.append(f"csv ({kind}, separator {sep!r}): header {rows[:1]} is not the documented column list under that separator")
                    continue
                if len(rows) != len(sol.tasks) + 1:
                    problems.append(f"csv ({kind}, separator {sep!r}): {len(rows) - 1} rows for {len(sol.tasks)} tasks")
                    continue
                for r, (n, ts) in zip(rows[1:], sol.tasks.items()):
                    try:
                        got = (r[0], list(ast.literal_eval(r[1])), int(r[2]), int(r[3]), int(r[4]), r[5])
                    except Exception as e:
                        problems.append(f"csv ({kind}, separator {sep!r}): row {r} cannot be read back ({type(e).__name__})")
                        continue
                    want = (n, list(ts.assigned_resources), ts.start, ts.end, ts.duration, str(bool(ts.scheduled)))
                    if got != want:
                        problems.append(f"csv ({kind}, separator {sep!r}): row {got} != reported {want}")
    finally:
        if os.path.exists(cfn):
            os.unlink(cfn)
        os.rmdir(tmpd)
    js = json.loads(sol.to_json())
    for n, ts in sol.tasks.items():
        j = js["tasks"][n]
        if (j["start"], j["end"], j["duration"], j["scheduled"], j["assigned_resources"]) != (ts.start, ts.end, ts.duration, ts.scheduled, ts.assigned_resources):
            problems.append(f"json task {n}: {j} != reported")
    for n, rs in sol.resources.items():
        if [tuple(x) for x in js["resources"][n]["assignments"]] != [tuple(x) for x in rs.assignments]:
            problems.append(f"json resource {n} assignments differ")
    if js["indicators"] != sol.indicators:
        problems.append("json indicators differ")
    for n, b in sol.buffers.items():
        if js["buffers"][n]["level"] != b.level or js["buffers"][n]["level_change_times"] != b.level_change_times:
            problems.append(f"json buffer {n} differs")
    # excel: write for real, read the three sheets back (cells: (row, column) -> text / number / None for a blank styled cell)
    tmp = tempfile.mkdtemp(prefix="c16x_")
    fn = os.path.join(tmp, "s.xlsx")
    try:
        with quiet():
            sol.to_excel_file(fn, colors=True)
        import zipfile
        import re

        z = zipfile.ZipFile(fn)
        shared = re.findall(r"<si><t[^>]*>(.*?)</t></si>", z.read("xl/sharedStrings.xml").decode())

        def read_sheet(k):
            xml = z.read(f"xl/worksheets/sheet{k}.xml").decode()
            cells = {}
            for m in re.finditer(r'<c r="([A-Z]+)(\d+)"([^>]*?)(?:/>|>(.*?)</c>)', xml):
                col, row, attrs, body = _col(m.group(1)), int(m.group(2)) - 1, m.group(3), m.group(4)
                val = None
                if body:
                    v = re.search(r"<v>(.*?)</v>", body)
                    if v:
                        val = shared[int(v.group(1))] if 't="s"' in attrs else (float(v.group(1)) if "." in v.group(1) else int(v.group(1)))
                cells[(row, col)] = val
            return cells

        def check_view(cells, view, rows):
            """rows: [(first-column label, [(text, start, end)])]"""
            for i, (label, items) in enumerate(rows):
                r = i + 1
                if cells.get((r, 0)) != label:
                    problems.append(f"excel {view}: first column of row {r + 1} holds {cells.get((r, 0))!r}, expected {label!r}")
                want_cols = {}
                for text, s_, e_ in items:
                    for c in range(s_ + 1, max(s_ + 1, e_) + 1):
                        want_cols[c] = text if c == s_ + 1 else None
                got_cols = {c: v for (rr, c), v in cells.items() if rr == r and c > 0}
                if sorted(got_cols) != sorted(want_cols):
                    problems.append(f"excel {view}: row of {label} occupies columns {sorted(got_cols)}, expected {sorted(want_cols)}")
                else:
                    for c, text in want_cols.items():
                        if text not in (None, "") and got_cols[c] != text:  # (an empty text is written as a blank cell)
                            problems.append(f"excel {view}: cell of {label} at column {c} shows {got_cols[c]!r}, expected {text!r}")

        check_view(read_sheet(1), "resource view", [(rn, [(tn, s_, e_) for tn, s_, e_ in rs.assignments]) for rn, rs in sol.resources.items()])
        check_view(read_sheet(2), "task view", [(n, ([(",".join(ts.assigned_resources), ts.start, ts.end)] if ts.scheduled else [])) for n, ts in sol.tasks.items()])
        ind = read_sheet(3)
        for i, (iname, ival) in enumerate(sol.indicators.items()):
            if ind.get((i + 1, 0)) != iname or ind.get((i + 1, 1)) != ival:
                problems.append(f"excel indicators: row {i + 2} shows ({ind.get((i + 1, 0))!r}, {ind.get((i + 1, 1))!r}), expected ({iname!r}, {ival!r})")
    except Exception as e:
        problems.append(f"excel export failed: {type(e).__name__}: {e}")
    finally:
        if os.path.exists(fn):
            os.unlink(fn)
        os.rmdir(tmp)
    return problems


def _col(letters):
    n = 0
    for ch in letters:
        n = n * 26 + (ord(ch) - 64)
    return n - 1


# ---- concrete layer ----------------------------------------------------------------------------------------
def concrete_shape(tag):
    name = f"serialisers/{tag}"

    def build(P):
        return Ctx(problem=None)

    @library_failure
    def fn(ctx, path):
        problems = run_concrete(tag)
        if problems:
            return {"status": "sat", "queries": 1, "witness": {"params": {}, "pins": {}, "what": problems[0]}}
        return {"status": "unsat", "queries": 1}

    def obligations(ctx):
        return [Ob(f"{PROP}/{name}/round_trip", "custom", fn=fn, replayer="checks.c16:replay_concrete")]

    sh = Shape(name, build, obligations, initialize=False)
    sh.grid = False
    sh.tag = tag
    return sh


def run_concrete(tag):
    import datetime as dt

    problems = []
    if tag.startswith("solution"):
        with quiet(), warnings.catch_warnings():
            warnings.simplefilter("ignore")
            kw = {}
            if tag == "solution_calendar":
                kw = dict(delta_time=dt.timedelta(minutes=30), start_time=dt.datetime(2024, 1, 1, 8, 0))
            pb = ps.SchedulingProblem(name="exp", horizon=12, **kw)
            a = ps.FixedDurationTask(name="A", duration=3)
            b = ps.VariableDurationTask(name="B", min_duration=1, max_duration=2, optional=True)
            z = ps.ZeroDurationTask(name="Z")
            c = ps.FixedDurationTask(name="C", duration=2, optional=True)
            w1, w2 = ps.Worker(name="W1"), ps.Worker(name="W2")
            a.add_required_resource(w1)
            b.add_required_resource(ps.SelectWorkers(list_of_workers=[w1, w2], nb_workers_to_select=1))
            c.add_required_resource(w2)
            ps.OptionalTaskForceSchedule(task=c, to_be_scheduled=False)
            ps.OptionalTaskForceSchedule(task=b, to_be_scheduled=(tag != "solution_unscheduled"))
            if tag == "solution_buffer":
                buf = ps.NonConcurrentBuffer(name="Buf", initial_level=4)
                ps.TaskUnloadBuffer(task=a, buffer=buf, quantity=2)
                ps.TaskLoadBuffer(task=z, buffer=buf, quantity=5)
                ps.IndicatorMaxBufferLevel(buffer=buf)
            ps.IndicatorResourceUtilization(resource=w1)
            ps.TaskStartAt(task=a, value=2)
            sol = ps.SchedulingSolver(problem=pb).solve()
        engine.reset_z3_globals()
        if not sol:
            return ["concrete instance infeasible"]
        return check_tables(sol)
    # JSON round trips of definitions
    with quiet():
        pb = ps.SchedulingProblem(name="defs")
        objs = []
        if tag == "definitions_tasks":
            objs = [ps.FixedDurationTask(name="F", duration=7, priority=3, work_amount=2, release_date=1, due_date=20, due_date_is_deadline=False, optional=True),
                    ps.ZeroDurationTask(name="Z0", release_date=0),
                    ps.VariableDurationTask(name="V", min_duration=0, max_duration=9, allowed_durations=[1, 3, 9])]
        elif tag == "definitions_tasks_grid":
            # every field at its boundary values, 0 and None included (0 and "absent" must stay distinct)
            k = 0
            for dur, prio, wa, rel, due, dl, opt in itertools.product((1, 7), (0, 3), (0, 2), (None, 0, 4), (None, 0, 20), (False, True), (False, True)):
                kw = dict(priority=prio, work_amount=wa, optional=opt, due_date_is_deadline=dl)
                if rel is not None:
                    kw["release_date"] = rel
                if due is not None:
                    kw["due_date"] = due
                k += 1
                objs.append(ps.FixedDurationTask(name=f"F{k}", duration=dur, **kw))
                if dur == 1:
                    objs.append(ps.ZeroDurationTask(name=f"Z{k}", **kw))
                    for mn, mx, al in ((0, None, None), (0, 1, None), (2, 9, [2, 9]), (0, None, [1])):
                        vkw = dict(kw, min_duration=mn)
                        if mx is not None:
                            vkw["max_duration"] = mx
                        if al is not None:
                            vkw["allowed_durations"] = al
                        objs.append(ps.VariableDurationTask(name=f"V{k}_{mn}_{mx}_{len(al or [])}", **vkw))
        elif tag == "definitions_functions_grid":
            vals = (-3, 0, 1, 10 ** 12)
            objs = [ps.ConstantFunction(value=v) for v in vals] + [ps.LinearFunction(slope=a, intercept=b) for a in vals for b in vals]
            objs += [ps.PolynomialFunction(coefficients=list(c)) for n in (1, 2, 3) for c in itertools.product((-3, 0, 2), repeat=n)]
        else:
            objs = [ps.ConstantFunction(value=0), ps.ConstantFunction(value=7), ps.LinearFunction(slope=-2, intercept=0),
                    ps.LinearFunction(slope=0, intercept=5), ps.PolynomialFunction(coefficients=[1, 0, -3, 0])]
        for o in objs:
            js = o.to_json()
            d = json.loads(js)
            pb2 = ps.SchedulingProblem(name="defs2")
            try:
                if tag.startswith("definitions_tasks"):
                    back = pb2.add_from_json(js)
                else:
                    back = type(o).model_validate_json(js)
            except Exception as e:
                problems.append(f"{type(o).__name__} {o.name}: JSON round trip raised {type(e).__name__}: {e}")
                continue
            for fld in type(o).model_fields:
                if fld in ("type",):
                    continue
                if getattr(back, fld) != getattr(o, fld):
                    problems.append(f"{type(o).__name__}.{fld}: {getattr(o, fld)!r} became {getattr(back, fld)!r} after the JSON round trip")
            if not tag.startswith("definitions_tasks"):
                for x in (0, 1, 5, -2):
                    if back(x) != o(x):
                        problems.append(f"{type(o).__name__}: value at {x} changed after the round trip")
    return problems


@confirm_library_failure
def replay_concrete(desc):
    import symx.harness as H

    shape = H.get_shape(desc["module"], desc["shape"])
    problems = run_concrete(shape.tag)
    print("replay:", problems[:3])
    if problems:
        print("CONFIRMED: " + problems[0])
        return 1
    return 0


def shapes(tier):
    out = []
    variants = ["plain", "select", "buffer", "objective", "work", "distance"] if tier == "thorough" else ["plain", "select", "buffer", "objective"]
    for v in variants:
        for opt in ("incremental", "optimize"):
            if opt == "optimize" and v not in ("objective",):
                continue
            for when in ("before_solve", "after_solve"):
                out.append(smt2_shape(v, opt, when))
    out.append(smt2_shape("objective", "incremental", "after_solve", max_iter=1))
    out.append(smt2_shape("objective", "incremental", "after_solve", max_iter=2))
    for v in ("plain", "workers", "cumulative", "cumulative_in_list", "buffer_indicator", "optional_zero"):
        out.append(table_shape(v, "dataframe"))
        if v != "cumulative_in_list" or tier == "thorough":
            out.append(table_shape(v, "excel"))
    for cname in _sweep_elements():
        out.append(smt2_class_shape(cname))
    for tag in ("solution_all_scheduled", "solution_unscheduled", "solution_buffer", "solution_calendar", "definitions_tasks", "definitions_functions", "definitions_tasks_grid", "definitions_functions_grid"):
        out.append(concrete_shape(tag))
    return out


def main(tier):
    return run_property(
        PROP, "checks.c16", tier, "translation_validation",
        assumptions=[
            "SMT-LIB: z3's printer/parser pair is the bridge (to_smt2 / sexpr -> parse_smt2_string / Optimize.from_string); the parsed script is compared with the system captured at the first check() of solve()",
            "data frame / Excel: recording DataFrame and Workbook (pandas and xlsxwriter store what they are given); cells compared with the reported solution under phi_real for every model",
            "NOT decided by the solver (compiled serialisers, file I/O): byte-level JSON / CSV / XLSX output and JSON parsing of task and cost-function definitions; exercised by six concrete round trips with the real libraries (trace validation)",
            "a zero-length item occupies the single cell start+1 (the exporter's representation of an instant)",
        ])
