"""C12 - asking for another solution enumerates distinct valid schedules, exhaustively.
Inductive step on the solver stub: from the stack Base /\\ blocks(M1..Mj) and a symbolic current model Mj,
one call appends a clause that must be EQUIVALENT to
   OR_t ( start_t != Mj.start_t  \\/  end_t != Mj.end_t  \\/  scheduled_t != Mj.scheduled_t )
(exactness => the next schedule differs from Mj, and nothing else is excluded), at stack depth 1 so that
it survives later calls (=> differs from every schedule returned before; fails only when none is left).
find_another_solution_for_variable: clause == (var != Mj[var]).
Thorough tier additionally validates the traces against the implementation: on small concrete bounded
instances the real solver's enumeration is compared with an independent z3 enumeration."""
import itertools

import z3

import processscheduler as ps

from symx import engine, formula
from symx.harness import library_failure, confirm_library_failure, Shape, Ob, Ctx, run_property, quiet
from checks import c13

PROP = "C12"


def enumeration_shape(tag, builder):
    """concrete instance: real solver enumeration vs independent enumeration of the base system"""
    name = f"enumeration/{tag}"

    def build(P):
        return Ctx(problem=None, tag=tag)

    @library_failure
    def fn(ctx, path):
        with quiet():
            pb, tasks = builder()
            solver = ps.SchedulingSolver(problem=pb)
            sol = solver.solve()
            seen = []
            while sol and len(seen) < 400:
                key = tuple((n, t.start, t.end, t.scheduled) for n, t in sorted(sol.tasks.items()))
                seen.append(key)
                sol = solver.find_another_solution()
            # independent enumeration: a second build of the same problem, raw z3 blocking loop
            pb2, tasks2 = builder()
            s2 = ps.SchedulingSolver(problem=pb2)
            s2.initialize()
        engine.reset_z3_globals()
        oracle = z3.Solver()
        oracle.add(s2._solver.assertions())
        ref = set()
        while oracle.check() == z3.sat and len(ref) < 400:
            m = oracle.model()
            key, block = [], []
            for t in tasks2:
                sv, ev = m.eval(t._start, True).as_long(), m.eval(t._end, True).as_long()
                sch = True if t._scheduled is True else z3.is_true(m.eval(t._scheduled, True))
                key.append((t.name, sv, ev, sch))
                block += [t._start != sv, t._end != ev]
                if t._scheduled is not True:
                    block.append(t._scheduled != sch)
            ref.add(tuple(sorted(key)))
            oracle.add(z3.Or(block))
        got = set(seen)
        problems = []
        if len(seen) != len(got):
            problems.append(f"{len(seen) - len(got)} schedules were returned twice")
        if got - ref:
            problems.append(f"returned schedules that are not valid: {sorted(got - ref)[:2]}")
        if ref - got:
            problems.append(f"{len(ref - got)} valid timings were never visited, e.g. {sorted(ref - got)[:2]}")
        if problems:
            return {"status": "sat", "queries": len(ref), "witness": {"params": {}, "pins": {}, "what": "; ".join(problems), "tag": tag}}
        return {"status": "unsat", "queries": len(ref), "note": f"{len(ref)} schedules enumerated on both sides"}

    def obligations(ctx):
        return [Ob(f"{PROP}/{name}/real_enumeration_equals_reference", "custom", fn=fn, replayer="checks.c12:replay_enumeration")]

    sh = Shape(name, build, obligations, initialize=False)
    sh.grid = False
    sh.builder = builder
    return sh


@confirm_library_failure
def replay_enumeration(desc):
    import symx.harness as H

    shape = H.get_shape(desc["module"], desc["shape"])
    ctx = Ctx(problem=None, tag=desc["shape"])
    ob = shape.obligations(ctx)[0]
    r = ob.fn(ctx, None)
    print("replay:", r.get("witness", {}).get("what", r.get("note")))
    if r["status"] == "sat":
        print("CONFIRMED: " + r["witness"]["what"])
        return 1
    return 0


def _inst_two_fixed():
    pb = ps.SchedulingProblem(name="e1", horizon=6)
    a = ps.FixedDurationTask(name="A", duration=2)
    b = ps.FixedDurationTask(name="B", duration=3)
    ps.TaskPrecedence(task_before=a, task_after=b)
    return pb, [a, b]


def _inst_variable():
    pb = ps.SchedulingProblem(name="e2", horizon=5)
    a = ps.VariableDurationTask(name="A", min_duration=1, max_duration=3)
    b = ps.FixedDurationTask(name="B", duration=2)
    return pb, [a, b]


def _inst_optional():
    pb = ps.SchedulingProblem(name="e3", horizon=4)
    a = ps.FixedDurationTask(name="A", duration=2, optional=True)
    b = ps.ZeroDurationTask(name="B")
    return pb, [a, b]


def _inst_workers():
    pb = ps.SchedulingProblem(name="e4", horizon=5)
    a = ps.FixedDurationTask(name="A", duration=2)
    b = ps.FixedDurationTask(name="B", duration=2)
    w1, w2 = ps.Worker(name="W1"), ps.Worker(name="W2")
    a.add_required_resource(ps.SelectWorkers(list_of_workers=[w1, w2], nb_workers_to_select=1))
    b.add_required_resource(w1)
    return pb, [a, b]


def _inst_cumulative_dynamic():
    pb = ps.SchedulingProblem(name="e5", horizon=4)
    a = ps.FixedDurationTask(name="A", duration=2)
    b = ps.VariableDurationTask(name="B", min_duration=1, max_duration=2, optional=True)
    cw = ps.CumulativeWorker(name="CW", size=2)
    a.add_required_resource(cw)
    b.add_required_resource(cw)
    w = ps.Worker(name="W")
    a.add_required_resource(w, dynamic=True)
    return pb, [a, b]


def shapes(tier):
    out = []
    thorough = tier == "thorough"
    seqs = [("solve", "another"), ("solve", "another", "another"), ("solve", "another_var"), ("solve", "another_var", "another"),
            ("solve", "another", "another_var"), ("solve", "another", "solve"), ("solve", "solve", "another")]
    if thorough:
        seqs += [("solve", "another", "another", "another"), ("solve", "another", "solve", "another"), ("initialize", "solve", "another", "another")]
    obl = {"blocking_clause_exact_and_persistent": c13.ob_invariant, "results_match_verdicts": c13.ob_results}
    for config in ("none", "optimize", "incremental"):
        for seq in seqs:
            for opt, wk in ((False, False), (True, False), (False, True)) + (((True, True),) if thorough else ()):
                if (config != "none" or len(seq) > 3) and (opt and wk):
                    continue  # optional task + workers + long sessions: path count beyond the bound
                mc = 3 if config != "incremental" else 4
                if len(seq) > 3:
                    mc += 1
                out.append(c13.session_shape(PROP, seq, config, max_checks=mc, with_optional=opt, with_worker=wk, obligations=obl))
    # an optimisation cut short by its iteration limit, then enumeration
    for config in ("incremental_maxiter1", "incremental_max_maxiter1") + (("incremental_maxiter2", "incremental_max_maxiter2") if thorough else ()):
        for seq in [("solve", "another"), ("solve", "another", "another"), ("solve", "another_var")]:
            out.append(c13.session_shape(PROP, seq, config, max_checks=5, obligations=obl))
    for tag, b in (("two_fixed_tasks", _inst_two_fixed), ("variable_duration", _inst_variable), ("optional_and_zero", _inst_optional),
                   ("alternative_workers", _inst_workers), ("cumulative_dynamic_optional", _inst_cumulative_dynamic)):
        out.append(enumeration_shape(tag, b))
    return out


def main(tier):
    return run_property(
        PROP, "checks.c12", tier, "model_checking",
        assumptions=[
            "solver stub contract: sat => model of the stack, unsat => no model; the blocking clause is compared with its specification for a fully symbolic current model",
            "bounded call sequences (<= 3, thorough 4 calls) starting with solve; tasks: fixed + variable (+ optional) (+ a worker and a selection)",
            "enumeration instances: 5 small concrete bounded problems, real z3 on both sides (trace validation, not the deciding step)",
        ])
