"""C09 - buffers: levels follow loads/unloads in time order, final level, bounds, (non-)concurrency.
The buffer section of the real initialize() (store chains / forall-defined quantity functions,
sort networks) is executed with symbolic quantities, levels and bounds."""
import itertools

import z3

import processscheduler as ps

from symx.formula import And, Or, Not, Implies, Sum, b2i, to_z3
from symx import formula
from symx.harness import Shape, Ob, Ctx, run_property
from checks.common import make_task, new_problem, buffer_witness

PROP = "C09"


def buffer_clauses(ctx, scheduled_only=False):
    """S_must of a buffer over its z3 observables. accesses: [(instant, signed quantity, sched)]"""
    buf = ctx.buf
    levels = buf._buffer_levels
    times = buf._level_changes_time
    acc = ctx.accesses
    cl = []
    if ctx.initial is not None:
        cl.append(("initial_level", levels[0] == ctx.initial))
    for i in range(len(times)):
        expected = levels[0] + Sum([z3.If(And(a <= times[i], s) if scheduled_only else a <= times[i], to_z3(q), 0) for a, q, s in acc])
        cl.append((f"level_after_change_{i}", levels[i + 1] == expected))
        cl.append((f"change_time_is_an_access_{i}", Or([times[i] == a for a, _, _ in acc])))
    for j, (a, _, _) in enumerate(acc):
        cl.append((f"access_is_a_change_time_{j}", Or([t == a for t in times])))
    for i in range(len(times) - 1):
        if ctx.concurrent:
            cl.append((f"times_sorted_{i}", times[i] <= times[i + 1]))
        else:
            cl.append((f"times_strictly_sorted_{i}", times[i] < times[i + 1]))
    if ctx.final is not None:
        cl.append(("final_level", levels[-1] == ctx.final))
    for i, lv in enumerate(levels):
        if ctx.lower is not None:
            cl.append((f"lower_bound_{i}", lv >= ctx.lower))
        if ctx.upper is not None:
            cl.append((f"upper_bound_{i}", lv <= ctx.upper))
    if not ctx.concurrent:
        for (j1, (a1, _, _)), (j2, (a2, _, _)) in itertools.combinations(enumerate(acc), 2):
            cl.append((f"no_simultaneous_access_{j1}_{j2}", a1 != a2))
    return cl


def declare_buffer(P, concurrent, ops, opts, name="B", kinds=None, optmask=None, tasks=None):
    """ops: string of 'u'/'l' (unload/load, in declaration order; 'U'/'L': by the same task as the previous access).
    opts: subset of {'initial','final','lower','upper'}."""
    kw = {}
    vals = {"initial": None, "final": None, "lower": None, "upper": None}
    if "initial" in opts:
        kw["initial_level"] = P.int(f"{name}_initial", ph=10)
        vals["initial"] = P.v(f"{name}_initial")
    if "final" in opts:
        kw["final_level"] = P.int(f"{name}_final", ph=10)
        vals["final"] = P.v(f"{name}_final")
    if "lower" in opts:
        kw["lower_bound"] = P.int(f"{name}_lower", ph=0)
        vals["lower"] = P.v(f"{name}_lower")
    if "upper" in opts:
        kw["upper_bound"] = P.int(f"{name}_upper", ph=100)
        vals["upper"] = P.v(f"{name}_upper")
    cls = ps.ConcurrentBuffer if concurrent else ps.NonConcurrentBuffer
    buf = cls(name=name, **kw)
    accesses = []
    tis = tasks or []
    for i, op in enumerate(ops):
        if op in "UL":
            ti = tis[-1]  # capital letter: a second access by the task of the previous access (borrow and return)
            op = op.lower()
        elif tasks is None:
            kind = (kinds or ["fixed"] * len(ops))[i]
            ti = make_task(P, f"{name}T{i}", kind, optional=bool(optmask and optmask[i]))
            tis.append(ti)
        else:
            ti = tasks[i]
        q = P.int(f"{name}_q{i}", ph=1 + i)
        qv = P.v(f"{name}_q{i}")
        if op == "u":
            ps.TaskUnloadBuffer(task=ti.obj, buffer=buf, quantity=q)
            accesses.append((ti.s, -qv, ti.sched))
        else:
            ps.TaskLoadBuffer(task=ti.obj, buffer=buf, quantity=q)
            accesses.append((ti.e, qv, ti.sched))
    return Ctx(buf=buf, tis=tis, accesses=accesses, concurrent=concurrent, **vals)


def make_shape(concurrent, ops, opts, kinds=None, two_buffers=False, horizon=False):
    """two_buffers: True = a second buffer of the same kind on the first two tasks (reversed operations);
    'other_kind' = a second buffer of the OTHER kind accessed by the same tasks through the same operations"""
    name = f"{'concurrent' if concurrent else 'nonconcurrent'}/{ops}/{'+'.join(sorted(opts)) or 'none'}"
    if kinds:
        name += "/" + "+".join(kinds)
    if two_buffers:
        name += "/two_buffers" + ("_of_both_kinds" if two_buffers == "other_kind" else "")

    def build(P):
        pb, hv = new_problem(P, horizon)
        ctx = declare_buffer(P, concurrent, ops, opts, kinds=kinds)
        ctx.problem = pb
        if two_buffers == "other_kind":
            ctx.other = declare_buffer(P, not concurrent, ops, {"initial"}, name="C", tasks=list(ctx.tis))
        elif two_buffers:
            # a second buffer of the same kind accessed by the same tasks (shared instants, other quantities)
            ctx.other = declare_buffer(P, concurrent, ops[::-1][:2], {"initial"}, name="C", tasks=ctx.tis[:2])
        return ctx

    def obligations(ctx):
        # concurrent buffers: the forall-defined quantity functions are replaced by the lambdas their
        # definitions describe (equisatisfiable: each definition determines its function), which keeps the
        # soundness queries quantifier-free
        phi = buffer_witness(list(ctx.phi)) if (ctx.concurrent or two_buffers == "other_kind") else None
        obs = [Ob(f"{PROP}/{name}/{cn}", "sound", clause=cl, phi=phi) for cn, cl in buffer_clauses(ctx)]
        if two_buffers:
            o = ctx.other
            obs += [Ob(f"{PROP}/{name}/second_{cn}", "sound", clause=cl, phi=phi) for cn, cl in buffer_clauses(o)]
        if ctx.concurrent and len(ctx.accesses) >= 2 and two_buffers != "other_kind":  # (the non-concurrent partner forbids the tie)
            obs.append(Ob(f"{PROP}/{name}/simultaneous_access_admitted", "custom", fn=_tie_admitted))
        return obs

    sh = Shape(name, build, obligations)
    sh.assumptions = lambda P: []
    return sh


def _tie_admitted(ctx, path):
    """A concurrent buffer may be accessed by two tasks at the same instant: the constraint system
    must admit a schedule with a tie (existential query; also the reachability twin of the shape)."""
    # two accesses by different tasks (the start and the end of one task of positive length never coincide)
    pairs = [(x[0], y[0]) for x, y in itertools.combinations(ctx.accesses, 2) if not x[2].eq(y[2]) or z3.is_true(x[2])]
    pairs = [(x, y) for x, y in pairs if not any(x.eq(t.s) and y.eq(t.e) for t in ctx.tis)]
    if not pairs:
        return {"status": "unsat", "queries": 0, "note": "a single task: no tie to admit"}
    a0, a1 = pairs[0]
    base = [formula.to_z3(x) for x in list(path.assume) + list(path.pc) + list(ctx.extra_assume)]
    # (the forall-defined quantity functions replaced by the lambdas they define: a quantifier-free query)
    v, m, _ = formula.solve(base + buffer_witness(list(ctx.phi)) + [a0 == a1], 60000, want_model=False)
    if v == "sat":
        return {"status": "unsat", "queries": 1, "note": "tie admitted"}
    if v == "unsat":
        # no parameter value admits a simultaneous access: replay as a completeness counterexample
        return {"status": "error", "queries": 1, "note": "no schedule with simultaneous accesses is admitted by a ConcurrentBuffer"}
    return {"status": "unknown", "queries": 1}


def shapes(tier):
    out = []
    thorough = tier == "thorough"
    op_list = ["u", "l", "ul", "lu", "uul", "ull"] + (["uull", "lulu", "uullu"] if thorough else ["uull"])
    opt_sets = [{"initial"}, {"initial", "final"}, {"initial", "lower", "upper"}, {"final"}, {"initial", "final", "lower", "upper"}]
    for conc in (False, True):
        for oi, ops in enumerate(op_list):
            sets = opt_sets if (thorough or len(ops) <= 2) else [opt_sets[oi % len(opt_sets)], opt_sets[4]]
            for opts in sets:
                out.append(make_shape(conc, ops, opts))
        out.append(make_shape(conc, "ul", {"initial", "lower"}, kinds=["var", "zero"]))
        out.append(make_shape(conc, "lu", {"initial", "final"}, kinds=["zero", "var"]))
        out.append(make_shape(conc, "ul", {"initial", "final"}, two_buffers=True))
        out.append(make_shape(conc, "ull", {"initial", "upper"}, two_buffers=True))
        out.append(make_shape(conc, "ul", {"initial", "final"}, horizon=True))
        # the same tasks access a buffer of each kind, declared in both orders
        out.append(make_shape(conc, "uu", {"initial"}, two_buffers="other_kind"))
        out.append(make_shape(conc, "ul", {"initial", "lower"}, two_buffers="other_kind"))
        out.append(make_shape(conc, "uul", {"initial"}, two_buffers="other_kind"))
        # a task that takes from the buffer when it starts and gives back when it completes
        out.append(make_shape(conc, "uL", {"initial"}))
        out.append(make_shape(conc, "uLl", {"initial", "lower", "upper"}))
        out.append(make_shape(conc, "luL", {"initial", "final"}))
        # ... when that task has no length the two accesses fall on one instant (concurrent buffers only)
        if conc:
            out.append(make_shape(conc, "uL", {"initial"}, kinds=["zero", "zero"]))
            out.append(make_shape(conc, "luL", {"initial", "lower"}, kinds=["fixed", "var", "var"]))
    return out


def main(tier):
    return run_property(
        PROP, "checks.c09", tier, "translation_validation",
        assumptions=[
            "quantities, initial/final levels and bounds are arbitrary symbolic integers",
            "levels and change times are the solver variables build_solution reads (duplicate removal by clean_buffer_levels is checked separately)",
            "shape bounds: <= 4 (thorough 5) accesses per buffer, <= 2 buffers per problem",
            "concurrent buffers: admission of simultaneous accesses is an existential query (some tie schedule is admitted)",
        ])
