"""C05 - no valid schedule is lost. Q-complete: every schedule that satisfies the documented
semantics beyond dispute (S_valid) is admitted by the constraint system the real code generates:
  S_valid(p, x)  /\\  forall aux. not phi_real(p, x, aux)   must be unsat
with parameters p and schedule x symbolic; aux = every constant of phi_real that is not an
observable (sorted copies, overlap variables, in-interval flags, group bounds, ...)."""
import itertools

import z3

import processscheduler as ps

from symx import formula
from symx.formula import And, Or, Not, Implies, Sum, b2i, to_z3
from symx.harness import Shape, Ob, Ctx, run_property
from checks.common import make_task, new_problem, task_valid, task_must, buffer_witness
from checks.elements import ELEMENTS
from checks.relements import RELEMENTS, setup_resource
from checks import c01 as _c01

PROP = "C05"


def _task(P, name, kind, optional):
    if kind == "var":
        return make_task(P, name, "var", optional=optional, vmin=True, vmax=True)
    return make_task(P, name, kind, optional=optional)


def base_valid(tis, H, horizon, scheduled=None):
    """every listed task is scheduled and individually valid, inside the horizon"""
    cl = []
    for t in tis:
        cl.append(t.sched)
        cl.append(task_valid(t, H, horizon))
    if horizon is not None:
        cl.append(H <= horizon)
    return And(cl)


# --- (e) single tasks ---------------------------------------------------------------------------
def task_shape(kname, optional, release, due, horizon):
    name = f"task/{kname}/{'opt' if optional else 'mand'}/rel{int(release)}/due_{due or 'none'}/hz{int(horizon)}"

    def build(P):
        pb, hv = new_problem(P, horizon)
        ti = make_task(P, "A", optional=optional, release=release, due=due, **_c01.KINDS[kname])
        return Ctx(problem=pb, ti=ti, horizon=hv)

    def obligations(ctx):
        ti, H = ctx.ti, ctx.problem._horizon
        obs = [Ob(f"{PROP}/{name}/valid_scheduled_task_admitted", "complete",
                  valid=base_valid([ti], H, ctx.horizon), observables=ti.observables() + [H])]
        if optional:
            # leaving the task out is always possible: its own variables are existential
            obs.append(Ob(f"{PROP}/{name}/may_be_left_unscheduled", "complete",
                          valid=And(Not(ti.sched), H >= 0, H <= ctx.horizon if ctx.horizon is not None else True),
                          observables=[ti.obj._scheduled, H]))
        return obs

    return Shape(name, build, obligations)


# --- (a) task constraints -----------------------------------------------------------------------
def constraint_shape(ename, variant, kinds, optmask, copt, leave_out=None):
    el = ELEMENTS[ename]
    vtag = ",".join(f"{k}={v}" for k, v in sorted(variant.items())) or "-"
    name = f"{ename}/{vtag}/{'+'.join(kinds)}/opt{''.join(str(int(b)) for b in optmask)}/{'optc' if copt else 'mandc'}"
    if leave_out is not None:
        name += f"/task{leave_out}_left_unscheduled"

    def build(P):
        pb, hv = new_problem(P, True)
        tis = [_task(P, "ABC"[i], k, optmask[i]) for i, k in enumerate(kinds)]
        c = el.build(P, tis, optional=copt, **variant)
        ctx = Ctx(problem=pb, tis=tis, cst=c, horizon=hv, named={"applied": c._applied})
        if hasattr(el, "assume"):
            ctx.extra_assume = list(el.assume(P, **variant))
        return ctx

    def obligations(ctx):
        tis, H, P = ctx.tis, ctx.problem._horizon, ctx.P
        if leave_out is None:
            ev = el.valid(P, tis, **variant) if el.valid else And([c for _, c in el.must(P, tis, **variant)])
            if copt:
                ev = Implies(ctx.cst._applied, ev)
            valid = And(base_valid(tis, H, ctx.horizon), ev)
            observables = [o for t in tis for o in t.observables()] + [H] + ([ctx.cst._applied] if copt else [])
            return [Ob(f"{PROP}/{name}/valid_schedule_admitted", "complete", valid=valid, observables=observables)]
        # one optional task is left out: the constraint binds the others only
        out = tis[leave_out]
        rest = [t for i, t in enumerate(tis) if i != leave_out]
        ev = True
        if getattr(el, "count_scheduled", False):
            ev = And([c for _, c in el.must(P, tis, **variant)])  # the count clause itself looks at the flags
            # the left-out task's position must not matter: evaluate with the task parked outside every interval
        elif (ename.startswith(("UnorderedTaskGroup", "OrderedTaskGroup")) and rest) or (ename.startswith("TasksContiguous") and len(rest) >= 2):
            # the rule keeps binding the tasks that are scheduled
            ev = el.valid(P, rest, **variant) if el.valid else And([c for _, c in el.must(P, rest, **variant)])
        valid = And(base_valid(rest, H, ctx.horizon), Not(out.sched), ev, H >= 0)
        observables = [o for t in rest for o in t.observables()] + [H, out.obj._scheduled]
        if getattr(el, "count_scheduled", False):
            return []
        return [Ob(f"{PROP}/{name}/others_unconstrained_by_unscheduled_task", "complete", valid=valid, observables=observables)]

    return Shape(name, build, obligations)


# --- (b) resource constraints on a plain worker -------------------------------------------------
def rconstraint_shape(ename, variant, kinds):
    el = RELEMENTS[ename]
    vtag = ",".join(f"{k}={v}" for k, v in sorted(variant.items())) or "-"
    name = f"{ename}/{vtag}/worker/{'+'.join(kinds)}"

    def build(P):
        pb, hv = new_problem(P, True)
        tis = [_task(P, "ABCD"[i], k, False) for i, k in enumerate(kinds)]
        res, busy, named = setup_resource(P, tis, "worker")
        c = el.build(P, res, **variant)
        return Ctx(problem=pb, tis=tis, res=res, busy=busy, cst=c, horizon=hv)

    def obligations(ctx):
        tis, H, P = ctx.tis, ctx.problem._horizon, ctx.P
        cl = [base_valid(tis, H, ctx.horizon)]
        for t, (bs, be) in ctx.busy:
            cl += [bs == t.s, be == t.e, t.e > t.s]  # static assignment, positive length (no ties)
        for (t1, (b1, e1)), (t2, (b2, e2)) in itertools.combinations(ctx.busy, 2):
            cl.append(Or(e1 <= b2, e2 <= b1))
        cl += [c for _, c in el.must(P, ctx.busy, tis, **variant)]
        observables = [o for t in tis for o in t.observables()] + [H] + [v for _, iv in ctx.busy for v in iv]
        return [Ob(f"{PROP}/{name}/valid_schedule_admitted", "complete", valid=And(cl), observables=observables)]

    sh = Shape(name, build, obligations)
    sh.assumptions = lambda P: el.assume(P, **variant)
    return sh


def periodic_shape(cls, period, window, kinds, horizon=12):
    """Completeness of the periodic rules inside a concrete horizon: every occurrence that can meet
    [0, horizon] is spelled out (k from -2 to horizon/period + 2, |offset| <= period), so S_valid needs no
    quantifier over the period index."""
    name = f"{cls}/period={period},window={window}/worker/{'+'.join(kinds)}/horizon{horizon}"

    def build(P):
        pb, hv = new_problem(P, horizon)
        tis = [make_task(P, "ABC"[i], k) for i, k in enumerate(kinds)]
        res, busy, named = setup_resource(P, tis, "worker")
        kw = dict(name="rc", resource=res, period=period, offset=P.int("r_offset", ph=0),
                  list_of_time_intervals=[(P.int("r_lo0", ph=1), P.int("r_hi0", ph=2))])
        if window in ("start", "both"):
            kw["start"] = P.int("r_start", ph=2)
        if window in ("end", "both"):
            kw["end"] = P.int("r_end", ph=10)
        getattr(ps, cls)(**kw)
        return Ctx(problem=pb, tis=tis, busy=busy, horizon=hv)

    def obligations(ctx):
        P, H = ctx.P, ctx.problem._horizon
        lo, hi, off = P.v("r_lo0"), P.v("r_hi0"), P.v("r_offset")
        cl = [base_valid(ctx.tis, H, ctx.horizon)]
        for t, (bs, be) in ctx.busy:
            cl += [bs == t.s, be == t.e, t.e > t.s]
            free = And([Or(be <= lo + off + k * period, bs >= hi + off + k * period) for k in range(-2, horizon // period + 3)])
            exempt = []
            if window in ("start", "both"):
                exempt.append(be <= P.v("r_start"))
            if window in ("end", "both"):
                exempt.append(bs >= P.v("r_end"))
            cl.append(Or([free] + exempt))
        for (t1, (b1, e1)), (t2, (b2, e2)) in itertools.combinations(ctx.busy, 2):
            cl.append(Or(e1 <= b2, e2 <= b1))
        observables = [o for t in ctx.tis for o in t.observables()] + [H] + [v for _, iv in ctx.busy for v in iv]
        return [Ob(f"{PROP}/{name}/valid_schedule_admitted", "complete", valid=And(cl), observables=observables)]

    sh = Shape(name, build, obligations)
    sh.assumptions = lambda P: [0 <= P.v("r_lo0"), P.v("r_lo0") < P.v("r_hi0"), P.v("r_hi0") <= period,
                                P.v("r_offset") >= -period, P.v("r_offset") <= period] + \
                               ([P.v("r_start") >= 0] if window in ("start", "both") else [])
    sh.grid_limit = 3
    return sh


def rconstraint_twice_shape(ename, variant):
    """The same constraint class declared on two different workers with IDENTICAL parameters: the two
    constraints must stay independent (auxiliaries named after the parameters must not be shared)."""
    el = RELEMENTS[ename]
    vtag = ",".join(f"{k}={v}" for k, v in sorted(variant.items())) or "-"
    name = f"{ename}/{vtag}/declared_on_two_workers_with_the_same_parameters"

    def build(P):
        pb, hv = new_problem(P, True)
        n = max(1, el.min_tasks)
        ta = [make_task(P, f"A{i}", "fixed") for i in range(n)]
        tb = [make_task(P, f"B{i}", "fixed") for i in range(n)]
        w, v = ps.Worker(name="W"), ps.Worker(name="V")
        for t in ta:
            t.obj.add_required_resource(w)
        for t in tb:
            t.obj.add_required_resource(v)
        c1 = el.build(P, w, **variant)
        pb.constraints["rc_w"] = pb.constraints.pop("rc")
        c1.name = "rc_w"
        c2 = el.build(P, v, **variant)
        busy_w = [(t, w._busy_intervals[t.obj]) for t in ta]
        busy_v = [(t, v._busy_intervals[t.obj]) for t in tb]
        return Ctx(problem=pb, ta=ta, tb=tb, busy_w=busy_w, busy_v=busy_v, horizon=hv)

    def obligations(ctx):
        tis, H, P = ctx.ta + ctx.tb, ctx.problem._horizon, ctx.P
        cl = [base_valid(tis, H, ctx.horizon)]
        for busy, ts in ((ctx.busy_w, ctx.ta), (ctx.busy_v, ctx.tb)):
            for t, (bs, be) in busy:
                cl += [bs == t.s, be == t.e, t.e > t.s]
            for (t1, (b1, e1)), (t2, (b2, e2)) in itertools.combinations(busy, 2):
                cl.append(Or(e1 <= b2, e2 <= b1))
            cl += [c for _, c in el.must(P, busy, ts, **variant)]
        observables = [o for t in tis for o in t.observables()] + [H] + [x for _, iv in ctx.busy_w + ctx.busy_v for x in iv]
        return [Ob(f"{PROP}/{name}/valid_schedule_admitted", "complete", valid=And(cl), observables=observables)]

    sh = Shape(name, build, obligations)
    sh.assumptions = lambda P: el.assume(P, **variant)
    sh.grid_limit = 3
    return sh


def workers_rel_shape(cls, nworkers):
    name = f"{cls}/{nworkers}_common_workers"

    def build(P):
        pb, hv = new_problem(P, True)
        a, b = make_task(P, "A", "fixed"), make_task(P, "B", "fixed")
        ws = [ps.Worker(name=f"W{i + 1}") for i in range(nworkers)]
        s1 = ps.SelectWorkers(list_of_workers=list(ws), nb_workers_to_select=1, kind="exact")
        s2 = ps.SelectWorkers(list_of_workers=list(ws), nb_workers_to_select=1, kind="exact")
        a.obj.add_required_resource(s1)
        b.obj.add_required_resource(s2)
        getattr(ps, cls)(name="rc", select_workers_1=s1, select_workers_2=s2)
        named = {}
        for w in ws:
            named[f"s1_{w.name}"] = s1._selection_dict[w]
            named[f"s2_{w.name}"] = s2._selection_dict[w]
        return Ctx(problem=pb, a=a, b=b, ws=ws, s1=s1, s2=s2, horizon=hv, named=named)

    def obligations(ctx):
        H = ctx.problem._horizon
        x = [ctx.s1._selection_dict[w] for w in ctx.ws]
        y = [ctx.s2._selection_dict[w] for w in ctx.ws]
        cl = [base_valid([ctx.a, ctx.b], H, ctx.horizon), Sum([b2i(v) for v in x]) == 1, Sum([b2i(v) for v in y]) == 1]
        # a worker serving both tasks cannot do them at the same time
        cl += [Implies(And(xi, yi), Or(ctx.a.e <= ctx.b.s, ctx.b.e <= ctx.a.s)) for xi, yi in zip(x, y)]
        if cls == "SameWorkers":
            cl += [xi == yi for xi, yi in zip(x, y)]
        else:
            cl += [Not(And(xi, yi)) for xi, yi in zip(x, y)]
        observables = ctx.a.observables() + ctx.b.observables() + [H] + x + y
        return [Ob(f"{PROP}/{name}/valid_selection_admitted", "complete", valid=And(cl), observables=observables)]

    return Shape(name, build, obligations)


# --- (c) selections and cumulative workers ------------------------------------------------------
def select_shape(nw, kind, n):
    name = f"select/{nw}w/{kind}{n}"

    def build(P):
        pb, hv = new_problem(P, True)
        a, b = make_task(P, "A", "var", vmin=True), make_task(P, "B", "fixed")
        ws = [ps.Worker(name=f"W{i + 1}") for i in range(nw)]
        sw = ps.SelectWorkers(list_of_workers=list(ws), nb_workers_to_select=n, kind=kind)
        a.obj.add_required_resource(sw)
        b.obj.add_required_resource(ws[0])
        named = {f"sel_{w.name}": sw._selection_dict[w] for w in ws}
        return Ctx(problem=pb, a=a, b=b, ws=ws, sw=sw, horizon=hv, named=named)

    def obligations(ctx):
        H = ctx.problem._horizon
        a, b = ctx.a, ctx.b
        sel = [ctx.sw._selection_dict[w] for w in ctx.ws]
        total = Sum([b2i(s) for s in sel])
        cnt = {"exact": total == n, "min": total >= n, "max": total <= n}[kind]
        # W1 also serves B: if selected for A the two tasks must not overlap (positive lengths)
        cl = [base_valid([a, b], H, ctx.horizon), cnt, a.e > a.s, Implies(sel[0], Or(a.e <= b.s, b.e <= a.s))]
        observables = a.observables() + b.observables() + [H] + sel
        return [Ob(f"{PROP}/{name}/every_allowed_selection_admitted", "complete", valid=And(cl), observables=observables)]

    return Shape(name, build, obligations)


def select_cumulative_shape(ntasks):
    """every task picks one of [W1, CW] (CW cumulative, size 2): any choice is admitted as long as the tasks on
    W1 do not overlap and no three tasks on CW share an instant (positive lengths)"""
    name = f"select_with_cumulative_in_list/{ntasks}tasks"

    def build(P):
        pb, hv = new_problem(P, True)
        tis = [make_task(P, "ABCD"[i], "fixed") for i in range(ntasks)]
        w1, cw = ps.Worker(name="W1"), ps.CumulativeWorker(name="CW", size=2)
        sws, named = [], {}
        for i, t in enumerate(tis):
            sw = ps.SelectWorkers(list_of_workers=[w1, cw], nb_workers_to_select=1)
            t.obj.add_required_resource(sw)
            sws.append(sw)
            named[f"sel{i}_W1"], named[f"sel{i}_CW"] = sw._selection_dict[w1], sw._selection_dict[cw]
        return Ctx(problem=pb, tis=tis, w1=w1, cw=cw, sws=sws, horizon=hv, named=named)

    def obligations(ctx):
        H, tis = ctx.problem._horizon, ctx.tis
        on_w = [sw._selection_dict[ctx.w1] for sw in ctx.sws]
        on_c = [sw._selection_dict[ctx.cw] for sw in ctx.sws]
        cl = [base_valid(tis, H, ctx.horizon)] + [z3.Xor(a, b) for a, b in zip(on_w, on_c)]
        for i, j in itertools.combinations(range(len(tis)), 2):
            cl.append(Implies(And(on_w[i], on_w[j]), Or(tis[i].e <= tis[j].s, tis[j].e <= tis[i].s)))
        for grp in itertools.combinations(range(len(tis)), 3):
            shared = And([And([tis[x].s < tis[y].e for y in grp]) for x in grp])
            cl.append(Not(And([on_c[g] for g in grp] + [shared])))
        observables = [o for t in tis for o in t.observables()] + [H] + on_w + on_c
        return [Ob(f"{PROP}/{name}/every_allowed_selection_admitted", "complete", valid=And(cl), observables=observables)]

    return Shape(name, build, obligations)


def cumulative_shape(size, ntasks):
    name = f"cumulative/size{size}/{ntasks}tasks"

    def build(P):
        pb, hv = new_problem(P, True)
        tis = [make_task(P, "ABCDE"[i], "fixed") for i in range(ntasks)]
        cw = ps.CumulativeWorker(name="CW", size=size)
        for t in tis:
            t.obj.add_required_resource(cw)
        return Ctx(problem=pb, tis=tis, horizon=hv)

    def obligations(ctx):
        H = ctx.problem._horizon
        tis = ctx.tis
        cl = [base_valid(tis, H, ctx.horizon)]
        # at most `size` tasks at any instant  <=>  no size+1 tasks share an instant
        for grp in itertools.combinations(tis, size + 1):
            latest_start = grp[0].s
            earliest_end = grp[0].e
            shared = And([And([x.s < y.e for y in grp]) for x in grp])  # pairwise overlap == common instant for intervals
            cl.append(Not(shared))
        observables = [o for t in tis for o in t.observables()] + [H]
        return [Ob(f"{PROP}/{name}/capacity_respecting_schedule_admitted", "complete", valid=And(cl), observables=observables)]

    return Shape(name, build, obligations)


# --- (f) measurements never exclude a schedule ----------------------------------------------------
# An indicator or an objective only measures: every schedule that is valid without it stays valid with it
# (its value and its private auxiliaries - sorted copies, maxima - are existential).
def _measure(P, what, res, tis):
    if what == "utilization":
        return ps.IndicatorResourceUtilization(resource=res)
    if what == "nb_tasks_assigned":
        return ps.IndicatorNumberTasksAssigned(resource=res)
    if what == "idle":
        return ps.IndicatorResourceIdle(resource=res)
    if what == "cost":
        return ps.IndicatorResourceCost(list_of_resources=[res])
    if what == "flowtime_single_resource":
        return ps.ObjectiveMinimizeFlowtimeSingleResource(resource=res)
    if what == "due_dates":
        return [ps.IndicatorTardiness(), ps.IndicatorEarliness(), ps.IndicatorNumberOfTardyTasks(), ps.IndicatorMaximumLateness()]
    if what == "objectives_sum":
        return [ps.ObjectiveMinimizeFlowtime(), ps.ObjectivePriorities(), ps.ObjectiveTasksStartEarliest(), ps.ObjectiveMinimizeMakespan()]
    if what == "objectives_extrema":
        return [ps.ObjectiveTasksStartLatest(), ps.ObjectiveMinimizeGreatestStartTime()]
    if what == "resource_cost_objective":
        return ps.ObjectiveMinimizeResourceCost(list_of_resources=[res])
    raise ValueError(what)


MEASURES = ["utilization", "nb_tasks_assigned", "idle", "cost", "flowtime_single_resource", "due_dates", "objectives_sum",
            "objectives_extrema", "resource_cost_objective"]


def measurement_shape(what, how, kinds, optmask, leave_out=None):
    name = f"measurement/{what}/{how}/{'+'.join(kinds)}/opt{''.join(str(int(b)) for b in optmask)}"
    if leave_out is not None:
        name += f"/task{leave_out}_left_unscheduled"

    def build(P):
        pb, hv = new_problem(P, True)
        due = "soft" if what == "due_dates" else None
        tis = []
        for i, k in enumerate(kinds):
            kw = dict(optional=optmask[i], due=due, priority=(what in ("due_dates", "objectives_sum")))
            tis.append(make_task(P, "ABCD"[i], "var", vmin=True, vmax=True, **kw) if k == "var" else make_task(P, "ABCD"[i], k, **kw))
        cost = ps.LinearFunction(slope=1, intercept=2) if what in ("cost", "resource_cost_objective") else None
        ckw = {"cost": cost} if cost is not None and how != "cumulative" else {}
        if how == "cumulative":
            res = ps.CumulativeWorker(name="CW", size=2, **({"cost": ps.ConstantFunction(value=3)} if cost is not None else {}))
        else:
            res = ps.Worker(name="W", **ckw)
        for t in tis:
            t.obj.add_required_resource(res)
        _measure(P, what, res, tis)
        return Ctx(problem=pb, tis=tis, horizon=hv)

    def obligations(ctx):
        tis, H = ctx.tis, ctx.problem._horizon
        rest = [t for i, t in enumerate(tis) if i != leave_out]
        cl = [base_valid(rest, H, ctx.horizon), H >= 0]
        if leave_out is not None:
            cl.append(Not(tis[leave_out].sched))
        if how == "worker":
            for a, b in itertools.combinations(rest, 2):
                cl.append(Or(a.e <= b.s, b.e <= a.s))
        else:  # size 2: no three tasks share an instant (a zero-length task counts at its instant: closed comparison)
            def touch(x, y):
                return z3.If(And(x.e > x.s, y.e > y.s), And(x.s < y.e, y.s < x.e), And(x.s <= y.e, y.s <= x.e))
            for grp in itertools.combinations(rest, 3):
                cl.append(Not(And([touch(x, y) for x, y in itertools.combinations(grp, 2)])))
        observables = [o for t in rest for o in t.observables()] + [H]
        if leave_out is not None:
            observables.append(tis[leave_out].obj._scheduled)
        return [Ob(f"{PROP}/{name}/schedule_still_admitted", "complete", valid=And(cl), observables=observables, timeout_ms=240000)]

    sh = Shape(name, build, obligations)
    if what == "due_dates":
        sh.assumptions = lambda P: [P.v(f"{'ABCD'[i]}_due") >= 0 for i in range(len(kinds))]
    return sh


# --- (g) order-based rules with equal dates ------------------------------------------------------
# Zero-length tasks make two dates of a resource (or of a contiguous list) equal. A schedule in which the intervals
# can be put in an order where each one ends no later than the next one starts, every consecutive gap satisfying the
# rule, is valid beyond dispute.
def chain(intervals, rel):
    alts = []
    for perm in itertools.permutations(range(len(intervals))):
        alts.append(And([And(intervals[perm[k]][1] <= intervals[perm[k + 1]][0], rel(intervals[perm[k + 1]][0] - intervals[perm[k]][1]))
                         for k in range(len(perm) - 1)]))
    return Or(alts)


TIE_RULES = {
    "TasksContiguous": (None, lambda P: (lambda gap: gap == 0)),
    "ResourceNonDelay": (lambda P, w: ps.ResourceNonDelay(name="rc", resource=w), lambda P: (lambda gap: gap == 0)),
    "ResourceTasksDistance_exact": (lambda P, w: ps.ResourceTasksDistance(name="rc", resource=w, distance=P.int("r_dist", ph=2), mode="exact"), lambda P: (lambda gap: gap == P.v("r_dist"))),
    "ResourceTasksDistance_min": (lambda P, w: ps.ResourceTasksDistance(name="rc", resource=w, distance=P.int("r_dist", ph=2), mode="min"), lambda P: (lambda gap: gap >= P.v("r_dist"))),
    "ResourceTasksDistance_max": (lambda P, w: ps.ResourceTasksDistance(name="rc", resource=w, distance=P.int("r_dist", ph=2), mode="max"), lambda P: (lambda gap: gap <= P.v("r_dist"))),
}


def ties_shape(rule, kinds):
    name = f"equal_dates/{rule}/{'+'.join(kinds)}"
    mk, rel = TIE_RULES[rule]

    def build(P):
        pb, hv = new_problem(P, True)
        tis = [_task(P, "ABCD"[i], k, False) for i, k in enumerate(kinds)]
        if mk is None:
            ps.TasksContiguous(name="cst", list_of_tasks=[t.obj for t in tis])
        else:
            w = ps.Worker(name="W")
            for t in tis:
                t.obj.add_required_resource(w)
            mk(P, w)
        return Ctx(problem=pb, tis=tis, horizon=hv)

    def obligations(ctx):
        tis, H = ctx.tis, ctx.problem._horizon
        valid = And(base_valid(tis, H, ctx.horizon), chain([(t.s, t.e) for t in tis], rel(ctx.P)))
        observables = [o for t in tis for o in t.observables()] + [H]
        return [Ob(f"{PROP}/{name}/chained_schedule_admitted", "complete", valid=valid, observables=observables)]

    return Shape(name, build, obligations)


# --- (h) declaring the same rule twice loses no schedule -------------------------------------------------
# Twin build: a small problem with one instance of a constraint class, and the same problem with a second instance
# built from the same arguments (another name). The second declaration must not remove any schedule.
def _constraint_classes():
    import inspect
    from checks import c18
    from processscheduler.constraint import Constraint
    out = []
    for cname in sorted(dir(ps)):
        cls = getattr(ps, cname)
        if not (inspect.isclass(cls) and issubclass(cls, Constraint)) or cname in c18.SWEEP_SKIP:
            continue
        if cname in ("TaskLoadBuffer", "TaskUnloadBuffer"):
            continue  # two accesses of one task to one buffer are two accesses (C09), not a repeated rule
        out.append(cname)
    return out


def _declare_n(cname, n):
    from checks import c18
    cls = getattr(ps, cname)
    e = c18._env()
    made = []
    for k in range(n):
        req = [f for f, fi in cls.model_fields.items() if fi.is_required()]
        kw = {r: c18.REQUIRED[r](e) for r in req}
        if cname.startswith("OptionalTask"):
            kw.update({x: e["o1"] for x in ("task", "task_2") if x in kw})
        if cname == "IndicatorBounds":
            kw["upper_bound"] = 40
        if cname == "IndicatorTarget":
            kw["value"] = 3
        if cname in ("TasksEndSynced", "TasksStartSynced"):
            kw["task_2"] = e["t3"]  # (t1 and t2 share a worker)
        if cname.startswith("ResourcePeriodically"):
            kw.update(list_of_time_intervals=[(0, 1)], period=6)
        made.append(cls(name=f"under_test_{k}", **kw))
    return e, made


def repeated_rule_shape(cname):
    name = f"declared_twice/{cname}"

    def build(P):
        pb1 = ps.SchedulingProblem(name="once", horizon=12)
        _declare_n(cname, 1)
        s1 = ps.SchedulingSolver(problem=pb1)
        s1.initialize()
        phi_once = list(s1._solver.assertions())
        pb2 = ps.SchedulingProblem(name="twice", horizon=12)
        _declare_n(cname, 2)
        return Ctx(problem=pb2, phi_once=phi_once)

    def obligations(ctx):
        c1, _ = formula.constants(ctx.phi_once)
        c2, _ = formula.constants(ctx.phi)
        shared = [c for n, c in c2.items() if n in c1 and "_maybe_busy_" not in n]
        return [Ob(f"{PROP}/{name}/second_declaration_loses_no_schedule", "complete", valid=And(buffer_witness(list(ctx.phi_once))),
                   observables=shared, phi=list(ctx.phi), transform=buffer_witness, replayer="checks.c05:replay_repeated_rule")]

    sh = Shape(name, build, obligations)
    sh.grid = False
    from symx.harness import crash_obligations
    sh.on_exception = crash_obligations(PROP, name, "symx.harness:replay_build_crash", "a well-formed problem cannot be built and initialised")
    sh.cname = cname
    return sh


def replay_repeated_rule(desc):
    import symx.harness as H
    from symx import engine
    from symx.harness import quiet

    shape = H.get_shape(desc["module"], desc["shape"])
    w = desc["witness"]
    res = {}
    for n in (1, 2):
        with quiet():
            pb = ps.SchedulingProblem(name="replay", horizon=12)
            _declare_n(shape.cname, n)
            probe = ps.SchedulingSolver(problem=pb)
            probe.initialize()
            consts, _ = formula.constants(list(probe._solver.assertions()))
            k = 0
            for nm, v in (w.get("pins") or {}).items():
                if "!" in nm or nm not in consts or "_maybe_busy_" in nm or nm.startswith(("Selected_", "constraint_", "Indicator_", "task_group_")):
                    continue
                if not isinstance(v, (bool, int)) or z3.is_bool(consts[nm]) != isinstance(v, bool) or not (z3.is_int(consts[nm]) or z3.is_bool(consts[nm])):
                    continue
                ps.ConstraintFromExpression(name=f"__pin_{k}", expression=(consts[nm] == (z3.BoolVal(v) if isinstance(v, bool) else v)))
                k += 1
            res[n] = bool(ps.SchedulingSolver(problem=pb).solve())
        engine.reset_z3_globals()
    print(f"replay: pinned schedule: declared once -> {res[1]}; declared twice -> {res[2]}")
    if res[1] and not res[2]:
        print(f"CONFIRMED: declaring {shape.cname} a second time with the same arguments removes a schedule")
        return 1
    return 0


# --- (i) two rules declared on one problem do not interfere ----------------------------------------------
# The composition argument of DESIGN 3.2 (completeness composes over elements whose auxiliaries are private) is
# checked here instead of assumed, pair by pair over all constraint classes: three builds of the same small
# problem - with C1, with C2, with both - and the solver decides that a schedule admitted with C1 alone and with
# C2 alone is admitted with both (shared caches, shared auxiliary names, order effects would break this).
def _make_c(cname, e, nm):
    from checks import c10
    return c10._make_instance(cname, e, nm)


def pair_interference_shape(c1, c2):
    name = f"pairs/{c1}+{c2}"

    def one(cnames, pname):
        from checks import c18
        pb = ps.SchedulingProblem(name=pname, horizon=12)
        e = c18._env()
        for k, cn in enumerate(cnames):
            _make_c(cn, e, f"under_test_{cn}_{k}")
        return pb

    def build(P):
        phis = []
        for cn in (c1, c2):
            pb = one([cn], f"only_{cn}")
            sv = ps.SchedulingSolver(problem=pb)
            sv.initialize()
            phis.append(list(sv._solver.assertions()))
        pb = one([c1, c2], "both")
        return Ctx(problem=pb, phi_1=phis[0], phi_2=phis[1])

    def obligations(ctx):
        ca, _ = formula.constants(ctx.phi)
        c1_, _ = formula.constants(ctx.phi_1)
        c2_, _ = formula.constants(ctx.phi_2)
        shared = [c for n, c in ca.items() if n in c1_ and n in c2_ and "_maybe_busy_" not in n]
        each = buffer_witness(list(ctx.phi_1)) + buffer_witness(list(ctx.phi_2))
        return [Ob(f"{PROP}/{name}/admitted_by_each_alone_is_admitted_by_both", "complete", valid=And(each), observables=shared,
                   phi=list(ctx.phi), transform=buffer_witness, replayer="checks.c05:replay_pair", timeout_ms=120000,
                   extra={"vacuous_ok": True})]  # two rules may simply contradict each other

    sh = Shape(name, build, obligations)
    sh.grid = False
    from symx.harness import crash_obligations
    sh.on_exception = crash_obligations(PROP, name, "symx.harness:replay_build_crash", "a well-formed problem cannot be built and initialised")
    sh.pair = (c1, c2)
    sh.one = one
    return sh


def replay_pair(desc):
    import symx.harness as H
    from symx import engine
    from symx.harness import quiet

    shape = H.get_shape(desc["module"], desc["shape"])
    w = desc["witness"]
    c1, c2 = shape.pair
    res = {}
    for key, cnames in (("first", [c1]), ("second", [c2]), ("both", [c1, c2])):
        with quiet():
            pb = shape.one(cnames, "replay")
            probe = ps.SchedulingSolver(problem=pb)
            probe.initialize()
            consts, _ = formula.constants(list(probe._solver.assertions()))
            k = 0
            for nm, v in (w.get("pins") or {}).items():
                if "!" in nm or nm not in consts or "_maybe_busy_" in nm or nm.startswith(("Selected_", "constraint_", "Indicator_", "task_group_")):
                    continue
                if not isinstance(v, (bool, int)) or z3.is_bool(consts[nm]) != isinstance(v, bool) or not (z3.is_int(consts[nm]) or z3.is_bool(consts[nm])):
                    continue
                ps.ConstraintFromExpression(name=f"__pin_{k}", expression=(consts[nm] == (z3.BoolVal(v) if isinstance(v, bool) else v)))
                k += 1
            res[key] = bool(ps.SchedulingSolver(problem=pb).solve())
        engine.reset_z3_globals()
    print(f"replay: pinned schedule: with {c1} -> {res['first']}; with {c2} -> {res['second']}; with both -> {res['both']}")
    if res["first"] and res["second"] and not res["both"]:
        print("CONFIRMED: a schedule admitted with each rule alone is lost when both are declared")
        return 1
    return 0


# --- (d) buffers -----------------------------------------------------------------------------------
def buffer_valid(ctx):
    acc = ctx.accesses
    cl = []
    I = ctx.initial
    for a_j, _, _ in acc:
        lvl = to_z3(I) + Sum([z3.If(a_i <= a_j, to_z3(q_i), 0) for a_i, q_i, _ in acc])
        if ctx.lower is not None:
            cl.append(lvl >= ctx.lower)
        if ctx.upper is not None:
            cl.append(lvl <= ctx.upper)
    if ctx.lower is not None:
        cl.append(to_z3(I) >= ctx.lower)
    if ctx.upper is not None:
        cl.append(to_z3(I) <= ctx.upper)
    if ctx.final is not None:
        cl.append(to_z3(I) + Sum([to_z3(q) for _, q, _ in acc]) == ctx.final)
    if not ctx.concurrent:
        for (a1, _, _), (a2, _, _) in itertools.combinations(acc, 2):
            cl.append(a1 != a2)
    return cl


def buffer_shape(concurrent, ops, opts, two_buffers=False):
    from checks.c09 import declare_buffer

    name = f"buffer/{'concurrent' if concurrent else 'nonconcurrent'}/{ops}/{'+'.join(sorted(opts))}"
    if two_buffers:
        name += "/two_buffers"

    def build(P):
        pb, hv = new_problem(P, True)
        ctx = declare_buffer(P, concurrent, ops, opts)
        ctx.problem, ctx.horizon = pb, hv
        if two_buffers:
            ctx.other = declare_buffer(P, concurrent, ops[::-1][:2], {"initial"}, name="C", tasks=ctx.tis[:2])
        return ctx

    def obligations(ctx):
        H = ctx.problem._horizon
        cl = [base_valid(ctx.tis, H, ctx.horizon)] + buffer_valid(ctx)
        if two_buffers:
            cl += buffer_valid(ctx.other)
        observables = [o for t in ctx.tis for o in t.observables()] + [H]
        return [Ob(f"{PROP}/{name}/valid_placement_admitted", "complete", valid=And(cl), observables=observables,
                   transform=buffer_witness)]

    return Shape(name, build, obligations)


def shapes(tier):
    out = []
    thorough = tier == "thorough"
    for conc in (False, True):
        for ops in ["u", "ul", "lu", "ull"] + (["uull"] if thorough else []):
            for opts in ([{"initial"}, {"initial", "final"}, {"initial", "lower", "upper"}] if (thorough or len(ops) < 3) else [{"initial", "lower"}]):
                out.append(buffer_shape(conc, ops, opts))
        out.append(buffer_shape(conc, "ul", {"initial"}, two_buffers=True))
        out.append(buffer_shape(conc, "uL", {"initial"}))
        out.append(buffer_shape(conc, "uLl", {"initial", "lower"}))
        out.append(buffer_shape(conc, "ull", {"initial", "upper"}, two_buffers=True))
    for kname, optional, release, due, horizon in itertools.product(
            _c01.KINDS if thorough else ["zero", "fixed", "var_minmax", "var_all"], (False, True), (False, True), (None, "deadline"), (False, True)):
        out.append(task_shape(kname, optional, release, due, horizon))
    pats = {1: [("fixed",), ("var",)], 2: [("fixed", "fixed"), ("var", "zero")], 3: [("fixed", "var", "fixed")]}
    for ename, el in ELEMENTS.items():
        if getattr(el, "skip_completeness", False):
            continue
        for vi, variant in enumerate(el.variants):
            plist = pats[el.ntasks] if thorough else pats[el.ntasks][: (2 if vi == 0 else 1)]
            for kinds in plist:
                if el.lenpos and "zero" in kinds:
                    continue
                n = el.ntasks
                out.append(constraint_shape(ename, variant, kinds, (False,) * n, False))
                if vi == 0 or thorough:
                    out.append(constraint_shape(ename, variant, kinds, (True,) * n, False))
                    out.append(constraint_shape(ename, variant, kinds, (False,) * n, True))
                # one optional task left out
                if n >= 2 and (vi == 0 or thorough) or (n == 1 and vi == 0):
                    mask = tuple([True] + [False] * (n - 1))
                    out.append(constraint_shape(ename, variant, kinds, mask, False, leave_out=0))
                    if n >= 2:
                        mask = tuple([False] * (n - 1) + [True])
                        out.append(constraint_shape(ename, variant, kinds, mask, False, leave_out=n - 1))
    for ename, el in RELEMENTS.items():
        if "Periodically" in ename:
            continue  # S_valid needs a quantifier over the period index inside a quantified query: outside reach (DESIGN)
        for variant in el.variants:
            klist = [("fixed", "fixed"), ("fixed", "var", "fixed")] if el.min_tasks >= 2 else [("fixed",), ("fixed", "var")]
            for kinds in (klist if thorough else klist[:2]):
                out.append(rconstraint_shape(ename, variant, kinds))
    for ename, el in RELEMENTS.items():
        if "Periodically" in ename:
            continue
        for variant in (el.variants if thorough else el.variants[:2]):
            out.append(rconstraint_twice_shape(ename, variant))
    for cls in ("ResourcePeriodicallyUnavailable", "ResourcePeriodicallyInterrupted"):
        for period in (3, 5):
            for window in ("none", "start", "end") + (("both",) if thorough else ()):
                out.append(periodic_shape(cls, period, window, ("fixed",)))
                if thorough or window == "none":
                    out.append(periodic_shape(cls, period, window, ("fixed", "fixed")))
    for cls in ("SameWorkers", "DistinctWorkers"):
        for nw in (2, 3) + ((4,) if thorough else ()):
            out.append(workers_rel_shape(cls, nw))
    for nw in (2, 3):
        for kind in ("exact", "min", "max"):
            for n in range(1, nw + 1):
                out.append(select_shape(nw, kind, n))
    for size, nt in ((2, 3), (3, 4)) + (((2, 4),) if thorough else ()):
        out.append(cumulative_shape(size, nt))
    for nt in (2, 3) + ((4,) if thorough else ()):
        out.append(select_cumulative_shape(nt))
    for rule in TIE_RULES:
        for kinds in [("fixed", "zero"), ("zero", "zero"), ("fixed", "zero", "var")] + ([("zero", "fixed", "zero"), ("var", "var")] if thorough else []):
            out.append(ties_shape(rule, kinds))
    if thorough:
        out.append(ties_shape("ResourceNonDelay", ("fixed",)))
    for cname in _constraint_classes():
        out.append(repeated_rule_shape(cname))
    pcl = [c for c in _constraint_classes() if c not in ("ForceApplyNOptionalConstraints",)]
    if thorough:
        for a, b in itertools.permutations(pcl, 2):
            out.append(pair_interference_shape(a, b))
    else:
        # quick: every class once on each side, paired with a neighbour of the list
        for i, a in enumerate(pcl):
            out.append(pair_interference_shape(a, pcl[(i + 7) % len(pcl)]))
    for what in MEASURES:
        for how in ("worker", "cumulative"):
            if what in ("due_dates", "objectives_sum", "objectives_extrema") and how == "cumulative":
                continue
            if what in ("idle", "flowtime_single_resource") and how == "cumulative":
                continue  # both read the resource's own busy intervals, which a cumulative worker does not have: rejected at creation
            klist = [("fixed", "zero"), ("zero", "zero"), ("var", "fixed", "zero")] + ([("zero", "var", "zero")] if thorough else [])
            for kinds in klist:
                n = len(kinds)
                heavy = how == "cumulative" and what in ("cost", "resource_cost_objective")  # forall over the sub-worker selections times a division: z3 gives up
                if heavy and (n > 2 or not thorough):
                    continue  # (thorough only: the query takes tens of seconds and must not hit its time limit on a loaded machine)
                out.append(measurement_shape(what, how, kinds, (False,) * n))
                if (len(kinds) == 2 or thorough) and not heavy:
                    out.append(measurement_shape(what, how, kinds, (True,) * n))
                    out.append(measurement_shape(what, how, kinds, (True,) + (False,) * (n - 1), leave_out=0))
    return out


def main(tier):
    return run_property(
        PROP, "checks.c05", tier, "translation_validation",
        assumptions=[
            "S_valid contains only schedules valid beyond dispute: per element, positive-length tasks and no ties for order/overlap based rules (the 'equal_dates' family adds the chained schedules with zero-length tasks), well-formed interval lists (disjoint where the meaning depends on it, merely pairwise different for unavailability and workload); ambiguous regions raise no alarm",
            "completeness composes over elements whose auxiliaries are private (DESIGN 3.2): each element is checked with 1-3 tasks and symbolic parameters, and the composition itself is checked on a concrete five-task problem, pair by pair over all constraint classes (quick: 33 pairs, thorough: all 1056 ordered pairs), together with 'declared twice' and 'measurements never exclude a schedule'",
            "quantified queries (forall aux) are decided by z3 (MBQI); unknown = inconclusive",
            "periodic constraints: completeness inside a concrete horizon of 12 with every occurrence spelled out (fixed-duration tasks, |offset| <= period); ResourceInterrupted duration accounting is outside the completeness claim",
            "the verdict plumbing of solve() (False iff unsat/unknown) is checked with the solver stub in C13",
        ])
