"""C08 - indicator values equal their documented definition on every admitted schedule (Q-sound:
phi_real => v = def(schedule), within integer rounding for ratios/halves)."""
import itertools

import z3

import processscheduler as ps

from symx.formula import And, Or, Not, Implies, Sum, b2i, to_z3, zmax, zmin
from symx.harness import Shape, Ob, Ctx, run_property
from checks.common import make_task, new_problem
from checks.c09 import declare_buffer

PROP = "C08"


def _tasks(P, kinds, optmask, due=None, priority=False):
    out = []
    for i, k in enumerate(kinds):
        kw = dict(optional=optmask[i], due=due, priority=priority)
        if k == "var":
            out.append(make_task(P, "ABCD"[i], "var", vmin=True, vmax=True, **kw))
        else:
            out.append(make_task(P, "ABCD"[i], k, **kw))
    return out


def _assign(tis, how):
    """returns (resource for the indicator, [(ti, (bs, be))])"""
    if how == "worker":
        w = ps.Worker(name="W")
        for t in tis:
            t.obj.add_required_resource(w)
        return w, [(t, w._busy_intervals[t.obj]) for t in tis], {}
    if how == "select":
        w, w2 = ps.Worker(name="W"), ps.Worker(name="W2")
        named = {}
        for i, t in enumerate(tis):
            sw = ps.SelectWorkers(list_of_workers=[w, w2], nb_workers_to_select=1)
            t.obj.add_required_resource(sw)
            named[f"sel{i}_W"] = sw._selection_dict[w]
        return w, [(t, w._busy_intervals[t.obj]) for t in tis], named
    if how in ("delayed", "dynamic"):
        # the first task holds the worker for a part of its span only
        w = ps.Worker(name="W")
        for i, t in enumerate(tis):
            if i == 0 and how == "delayed":
                t.obj.add_required_resource(w, delay_in=1, early_out=1)
            elif i == 0:
                t.obj.add_required_resource(w, dynamic=True)
            else:
                t.obj.add_required_resource(w)
        return w, [(t, w._busy_intervals[t.obj]) for t in tis], {}
    if how == "cumulative":
        cw = ps.CumulativeWorker(name="CW", size=2)
        for t in tis:
            t.obj.add_required_resource(cw)
        return cw, [(t, u._busy_intervals[t.obj]) for u in cw._cumulative_workers for t in tis], {}
    raise ValueError(how)


def shape(name, build, defs, assumptions=None):
    """defs(ctx) -> [(clause name, guard, clause)]"""

    def obligations(ctx):
        obs = [Ob(f"{PROP}/{name}/{cn}", "sound", clause=cl, guard=g) for cn, g, cl in defs(ctx)]
        # the bounds a built-in indicator declares for itself (the optimisers stop on them) hold for every schedule
        for k, ind in enumerate(ctx.problem.indicators.values()):
            b = getattr(ind, "bounds", None)
            if b is None or isinstance(ind, ps.IndicatorFromMathExpression):
                continue
            v = ind._indicator_variable
            parts = ([v >= to_z3(b[0])] if b[0] is not None else []) + ([v <= to_z3(b[1])] if len(b) > 1 and b[1] is not None else [])
            obs.append(Ob(f"{PROP}/{name}/declared_bounds_of_indicator_{k}_hold", "sound", clause=And(parts)))
        return obs

    sh = Shape(name, build, obligations)
    if assumptions:
        sh.assumptions = assumptions
    return sh


def _mask_tag(m):
    return "opt" + "".join(str(int(b)) for b in m)


# ---------------------------------------------------------------------------------------------
def utilization_shapes(tier):
    out = []
    hz_grid = [1, 2, 3, 7, 10, 33, 60] if tier == "quick" else [1, 2, 3, 4, 6, 7, 9, 10, 13, 25, 33, 50, 60, 99, 100, 101, 150, 200, 250]
    for how in ("worker", "select", "delayed", "dynamic"):
        for hz in (hz_grid + [None] if how in ("worker", "select") else [7, 10, None]):
            kinds = ("fixed", "var")
            name = f"utilization/{how}/hz_{hz}"

            def build(P, how=how, hz=hz, kinds=kinds):
                pb, hv = new_problem(P, hz if hz is not None else False)
                tis = _tasks(P, kinds, (False, True))
                res, busy, named = _assign(tis, how)
                ind = ps.IndicatorResourceUtilization(resource=res)
                return Ctx(problem=pb, tis=tis, busy=busy, ind=ind, named=named, hz=hz)

            def defs(ctx):
                v = ctx.ind._indicator_variable
                N = 100 * Sum([be - bs for _, (bs, be) in ctx.busy])
                D = to_z3(ctx.hz) if ctx.hz is not None else ctx.problem._horizon
                return [("percentage_within_rounding", D > 0, And(v * D - N < D, N - v * D < D)),
                        ("between_0_and_100", D > 0, And(v >= 0, v <= 100))]

            out.append(shape(name, build, defs, assumptions=(lambda P: [P.v("A_dur") >= 2]) if how == "delayed" else None))
    return out


def count_and_sum_shapes(tier):
    out = []
    masks2 = [(False, False), (True, False), (True, True)]
    for how in ("worker", "select"):
        for m in masks2:
            name = f"nb_tasks_assigned/{how}/{_mask_tag(m)}"

            def build(P, how=how, m=m):
                pb, hv = new_problem(P, False)
                tis = _tasks(P, ("fixed", "var"), m)
                res, busy, named = _assign(tis, how)
                ind = ps.IndicatorNumberTasksAssigned(resource=res)
                return Ctx(problem=pb, tis=tis, busy=busy, ind=ind, named=named)

            def defs(ctx):
                v = ctx.ind._indicator_variable
                return [("count_of_reported_assignments", True, v == Sum([b2i(And(bs >= 0, be >= 0)) for _, (bs, be) in ctx.busy]))]

            out.append(shape(name, build, defs))
    # a cumulative worker: a task counts once, whatever the number of elementary workers it occupies;
    # utilisation: only what every reading agrees on (at least the time of its tasks spread over the whole size)
    for m in masks2:
        def build(P, m=m):
            pb, hv = new_problem(P, 12)
            tis = _tasks(P, ("fixed", "var"), m)
            res, busy, named = _assign(tis, "cumulative")
            return Ctx(problem=pb, tis=tis, busy=busy, nb=ps.IndicatorNumberTasksAssigned(resource=res), ut=ps.IndicatorResourceUtilization(resource=res))

        def defs(ctx):
            total = Sum([z3.If(t.sched, t.e - t.s, 0) for t in ctx.tis])
            v = ctx.ut._indicator_variable
            return [("count_of_tasks_assigned", True, ctx.nb._indicator_variable == Sum([b2i(t.sched) for t in ctx.tis])),
                    ("utilization_at_least_task_time_over_capacity", True, (v + 1) * 2 * 12 > 100 * total),
                    ("utilization_is_occupied_capacity_within_rounding", True,
                     And(v * 24 - 100 * Sum([be - bs for _, (bs, be) in ctx.busy]) < 24, 100 * Sum([be - bs for _, (bs, be) in ctx.busy]) - v * 24 < 24)),
                    ("utilization_between_0_and_100", True, And(v >= 0, v <= 100))]

        out.append(shape(f"cumulative_worker/{_mask_tag(m)}", build, defs))
    for m in [(False, False), (True, False), (True, True)]:
        for explicit_list in (False, True):
            tag = f"{_mask_tag(m)}/{'list' if explicit_list else 'all'}"

            def build(P, m=m, explicit_list=explicit_list):
                pb, hv = new_problem(P, False)
                tis = _tasks(P, ("fixed", "var"), m, due="soft", priority=True)
                other = make_task(P, "Z", "fixed", due="soft") if explicit_list else None
                kw = {"list_of_tasks": [t.obj for t in tis]} if explicit_list else {}
                inds = dict(tard=ps.IndicatorTardiness(**kw), early=ps.IndicatorEarliness(**kw),
                            ntardy=ps.IndicatorNumberOfTardyTasks(**kw))
                if not any(m):
                    inds["maxlate"] = ps.IndicatorMaximumLateness(**kw)
                return Ctx(problem=pb, tis=tis, inds=inds)

            def defs(ctx):
                tis = ctx.tis
                d = []
                d.append(("tardiness", True, ctx.inds["tard"]._indicator_variable ==
                          Sum([z3.If(And(t.sched, t.e > t.due), (t.e - t.due) * to_z3(t.priority), 0) for t in tis])))
                d.append(("earliness", True, ctx.inds["early"]._indicator_variable ==
                          Sum([z3.If(And(t.sched, t.due > t.e), t.due - t.e, 0) for t in tis])))
                d.append(("number_of_tardy_tasks", True, ctx.inds["ntardy"]._indicator_variable ==
                          Sum([b2i(And(t.sched, t.e > t.due)) for t in tis])))
                if "maxlate" in ctx.inds:
                    v = ctx.inds["maxlate"]._indicator_variable
                    d.append(("max_lateness_upper", True, And([v >= t.e - t.due for t in tis])))
                    d.append(("max_lateness_attained", True, Or([v == t.e - t.due for t in tis])))
                return d

            sh = shape(f"due_date_indicators/{tag}", build, defs)
            sh.assumptions = lambda P: [P.v(f"{n}_due") >= 0 for n in "AB"]
            out.append(sh)
    # flow time, weighted completion, weighted starts, min / max start, makespan
    for m in [(False, False, False), (True, False, False), (True, True, False)]:
        def build(P, m=m):
            pb, hv = new_problem(P, True)
            tis = _tasks(P, ("fixed", "var", "zero"), m, priority=True)
            objs = dict(flow=ps.ObjectiveMinimizeFlowtime(), prio=ps.ObjectivePriorities(),
                        startearly=ps.ObjectiveTasksStartEarliest(), makespan=ps.ObjectiveMinimizeMakespan())
            if not any(m):
                objs["startlatest"] = ps.ObjectiveTasksStartLatest()
                objs["greatest"] = ps.ObjectiveMinimizeGreatestStartTime()
            return Ctx(problem=pb, tis=tis, objs=objs)

        def defs(ctx):
            tis = ctx.tis
            o = ctx.objs
            d = [("flowtime_sum_of_ends", True, o["flow"]._target == Sum([z3.If(t.sched, t.e, 0) for t in tis])),
                 ("weighted_completion", True, o["prio"]._target == Sum([z3.If(t.sched, t.e * to_z3(t.priority), 0) for t in tis])),
                 ("weighted_starts", True, o["startearly"]._target == Sum([z3.If(t.sched, t.s * to_z3(t.priority), 0) for t in tis])),
                 ("makespan_ge_every_end", True, And([Implies(t.sched, o["makespan"]._target >= t.e) for t in tis]))]
            if "startlatest" in o:
                v = o["startlatest"]._target
                d.append(("min_start", True, And(And([v <= t.s for t in tis]), Or([v == t.s for t in tis]))))
                v = o["greatest"]._target
                d.append(("max_start", True, And(And([v >= t.s for t in tis]), Or([v == t.s for t in tis]))))
            return d

        out.append(shape(f"sum_objectives/{_mask_tag(m)}", build, defs))
    return out


def idle_shapes(tier):
    """idle time = time between the first start and the last end of the intervals the resource is assigned to,
    minus the time it is busy; 0 with fewer than two assignments"""
    out = []
    cases = [(("fixed", "fixed"), (False, False), "worker"), (("fixed", "var", "fixed"), (False, False, False), "worker"),
             (("fixed",), (False,), "worker"), (("zero", "fixed"), (False, False), "worker"), (("zero", "zero", "var"), (False, False, False), "worker"),
             (("fixed", "var"), (True, True), "worker"), (("fixed", "zero", "fixed"), (True, False, True), "worker"),
             (("fixed", "var"), (False, False), "select"), (("zero", "fixed", "fixed"), (False, True, False), "select")]
    for kinds, m, how in cases:
        def build(P, kinds=kinds, m=m, how=how):
            pb, hv = new_problem(P, False)
            tis = _tasks(P, kinds, m)
            res, busy, named = _assign(tis, how)
            ind = ps.IndicatorResourceIdle(resource=res)
            return Ctx(problem=pb, tis=tis, busy=busy, ind=ind, named=named)

        def defs(ctx):
            v = ctx.ind._indicator_variable
            ivs = [iv for _, iv in ctx.busy]
            assigned = [And(bs >= 0, be >= 0) for bs, be in ivs]
            first, last = z3.Int("spec_first_start"), z3.Int("spec_last_end")
            some = Or(assigned)
            define = And(And([Implies(a, And(first <= bs, last >= be)) for a, (bs, be) in zip(assigned, ivs)]),
                         Or([And(a, first == bs) for a, (bs, be) in zip(assigned, ivs)]),
                         Or([And(a, last == be) for a, (bs, be) in zip(assigned, ivs)]))
            return [("idle_time_between_tasks", And(some, define), v == (last - first) - Sum([z3.If(a, be - bs, 0) for a, (bs, be) in zip(assigned, ivs)])),
                    ] + ([("no_assignment_no_idle_time", Not(some), v == 0)] if any(t.optional for t in ctx.tis) and all(t.optional for t in ctx.tis) or ctx.named else [])

        out.append(shape(f"resource_idle/{how}/{'+'.join(kinds)}/{_mask_tag(m)}", build, defs))
    return out


def cost_shapes(tier):
    out = []
    # constant cost per period: symbolic value (forks on == 0 / == 1)
    for how in ("worker", "select", "delayed", "dynamic"):
        def build(P, how=how):
            pb, hv = new_problem(P, False)
            tis = _tasks(P, ("fixed", "var"), (False, True))
            w = ps.Worker(name="W", cost=ps.ConstantFunction(value=P.int("cost", ph=2, lo=0, hi=9)))
            w2 = ps.Worker(name="W2", cost=ps.ConstantFunction(value=3))
            if how == "worker":
                for t in tis:
                    t.obj.add_required_resource(w)
            elif how in ("delayed", "dynamic"):
                tis[0].obj.add_required_resource(w, **({"delay_in": 1, "early_out": 1} if how == "delayed" else {"dynamic": True}))
                tis[1].obj.add_required_resource(w)
            else:
                for t in tis:
                    t.obj.add_required_resource(ps.SelectWorkers(list_of_workers=[w, w2], nb_workers_to_select=1))
            ind = ps.IndicatorResourceCost(list_of_resources=[w, w2])
            return Ctx(problem=pb, tis=tis, w=w, w2=w2, ind=ind, c=P.v("cost"))

        def defs(ctx):
            v = ctx.ind._indicator_variable
            tot = Sum([to_z3(ctx.c) * (be - bs) for bs, be in ctx.w._busy_intervals.values()] +
                      [3 * (be - bs) for bs, be in ctx.w2._busy_intervals.values()])
            return [("constant_cost_times_busy_time", True, v == tot)]

        out.append(shape(f"cost_constant/{how}", build, defs, assumptions=(lambda P: [P.v("A_dur") >= 2]) if how == "delayed" else None))
    # a worker that pays back (negative constant cost): the total may be negative
    def build_neg(P):
        pb, hv = new_problem(P, False)
        tis = _tasks(P, ("fixed", "var"), (False, True))
        w = ps.Worker(name="W", cost=ps.ConstantFunction(value=P.int("cost", ph=-2, lo=-5, hi=-1)))
        for t in tis:
            t.obj.add_required_resource(w)
        ind = ps.IndicatorResourceCost(list_of_resources=[w])
        return Ctx(problem=pb, tis=tis, w=w, ind=ind, c=P.v("cost"))

    out.append(shape("cost_constant/negative", build_neg,
                     lambda ctx: [("constant_cost_times_busy_time", True, ctx.ind._indicator_variable == Sum([to_z3(ctx.c) * (be - bs) for bs, be in ctx.w._busy_intervals.values()]))]))
    # linear cost: exact integral of slope*t+intercept over each busy interval, within the final /2
    grid = [(0, 0), (1, 0), (2, 1), (3, 5)] if tier == "quick" else list(itertools.product(range(0, 5), range(0, 4)))
    for slope, icpt in grid + [("sym", "sym")]:
        def build(P, slope=slope, icpt=icpt):
            pb, hv = new_problem(P, False)
            tis = _tasks(P, ("fixed", "var"), (False, False))
            if slope == "sym":
                f = ps.LinearFunction(slope=P.int("slope", ph=1, lo=0, hi=6), intercept=P.int("icpt", ph=1, lo=0, hi=6))
                sv, iv = P.v("slope"), P.v("icpt")
            else:
                f = ps.LinearFunction(slope=slope, intercept=icpt)
                sv, iv = slope, icpt
            w = ps.Worker(name="W", cost=f)
            for t in tis:
                t.obj.add_required_resource(w)
            ind = ps.IndicatorResourceCost(list_of_resources=[w])
            return Ctx(problem=pb, tis=tis, w=w, ind=ind, sv=sv, iv=iv)

        def defs(ctx):
            v = ctx.ind._indicator_variable
            sv, iv = to_z3(ctx.sv), to_z3(ctx.iv)
            twice = Sum([(sv * bs + iv + sv * be + iv) * (be - bs) for bs, be in ctx.w._busy_intervals.values()])
            return [("linear_cost_integral_within_rounding", True, And(2 * v - twice < 2, twice - 2 * v < 2))]

        out.append(shape(f"cost_linear/slope_{slope}_icpt_{icpt}", build, defs))
    # one indicator over several workers with time-dependent costs: the halves are added before the single rounding
    for nw, (sl, ic) in [(2, ("sym", "sym")), (3, ((1, 3, 5), (0, 1, 2)))] + ([(2, ((1, 1), (0, 0))), (3, ("sym", "sym"))] if tier != "quick" else []):
        def build(P, nw=nw, sl=sl, ic=ic):
            pb, hv = new_problem(P, False)
            tis = _tasks(P, tuple(["fixed", "var", "fixed"][:nw]), tuple([False] * nw))
            ws, coef = [], []
            for k in range(nw):
                if sl == "sym":
                    f = ps.LinearFunction(slope=P.int(f"slope{k}", ph=1 + k, lo=0, hi=6), intercept=P.int(f"icpt{k}", ph=k, lo=0, hi=6))
                    coef.append((P.v(f"slope{k}"), P.v(f"icpt{k}")))
                else:
                    f = ps.LinearFunction(slope=sl[k], intercept=ic[k])
                    coef.append((sl[k], ic[k]))
                w = ps.Worker(name=f"W{k}", cost=f)
                tis[k].obj.add_required_resource(w)
                ws.append(w)
            ind = ps.IndicatorResourceCost(list_of_resources=ws)
            return Ctx(problem=pb, tis=tis, ws=ws, ind=ind, coef=coef)

        def defs(ctx):
            v = ctx.ind._indicator_variable
            twice = Sum([(to_z3(a) * bs + to_z3(b) + to_z3(a) * be + to_z3(b)) * (be - bs)
                         for w, (a, b) in zip(ctx.ws, ctx.coef) for bs, be in w._busy_intervals.values()])
            return [("total_linear_cost_within_one_rounding", True, And(2 * v - twice < 2, twice - 2 * v < 2))]

        out.append(shape(f"cost_linear_several_workers/{nw}/{'sym' if sl == 'sym' else 'grid'}", build, defs))
    # polynomial cost C(x) = a_n x^n + ... + a_0 (coefficients listed from a_n down to a_0): concrete coefficients,
    # symbolic dates; the indicator is the documented trapezoid of C over each busy interval
    polys = [(1, 0, 0), (2, 1, 3), (0, 0, 5), (1, 2), (4,), (1, 0, 2, 1)]
    if tier != "quick":
        polys += [c for n in (1, 2, 3) for c in itertools.product((0, 1, 3), repeat=n) if c not in polys] + [(2, 0, 0, 0), (1, 1, 1, 1)]
    for coeffs in polys:
        def build(P, coeffs=coeffs):
            pb, hv = new_problem(P, False)
            tis = _tasks(P, ("fixed", "var"), (False, True))
            w = ps.Worker(name="W", cost=ps.PolynomialFunction(coefficients=list(coeffs)))
            for t in tis:
                t.obj.add_required_resource(w)
            ind = ps.IndicatorResourceCost(list_of_resources=[w])
            x = z3.Int("spec_x")
            return Ctx(problem=pb, tis=tis, w=w, ind=ind, coeffs=coeffs, fx=w.cost(x), x=x)

        def defs(ctx):
            v = ctx.ind._indicator_variable
            n = len(ctx.coeffs) - 1

            def C(x):
                return Sum([c * _pow(x, n - i) for i, c in enumerate(ctx.coeffs)])
            twice = Sum([(C(bs) + C(be)) * (be - bs) for bs, be in ctx.w._busy_intervals.values()])
            return [("function_value_is_the_polynomial", True, to_z3(ctx.fx) == C(ctx.x)),
                    ("polynomial_cost_trapezoid_within_rounding", True, And(2 * v - twice < 2, twice - 2 * v < 2))]

        out.append(shape(f"cost_polynomial/{'_'.join(map(str, coeffs))}", build, defs))
    return out


def _pow(x, k):
    r = z3.IntVal(1)
    for _ in range(k):
        r = r * x
    return r


def buffer_and_expression_shapes(tier):
    out = []
    for conc in (False, True):
        def build(P, conc=conc):
            pb, hv = new_problem(P, False)
            ctx = declare_buffer(P, conc, "ulu", {"initial"})
            ctx.problem = pb
            ctx.imax = ps.IndicatorMaxBufferLevel(buffer=ctx.buf)
            ctx.imin = ps.IndicatorMinBufferLevel(buffer=ctx.buf)
            return ctx

        def defs(ctx):
            lv = ctx.buf._buffer_levels
            vmax, vmin = ctx.imax._indicator_variable, ctx.imin._indicator_variable
            return [("max_level", True, And(And([vmax >= x for x in lv]), Or([vmax == x for x in lv]))),
                    ("min_level", True, And(And([vmin <= x for x in lv]), Or([vmin == x for x in lv])))]

        out.append(shape(f"buffer_level_extrema/{'concurrent' if conc else 'nonconcurrent'}", build, defs))

    # user expression, indicator target / bounds (symbolic values, incl. 0)
    for which, copt in [(w, False) for w in ("target", "bounds_both", "bounds_lower", "bounds_upper")] + [("target", True), ("bounds_both", True)]:
        def build(P, which=which, copt=copt):
            pb, hv = new_problem(P, False)
            tis = _tasks(P, ("fixed", "var"), (False, False))
            ind = ps.IndicatorFromMathExpression(name="expr", expression=tis[0].s + 2 * tis[1].e - 3)
            okw = {"optional": True} if copt else {}
            if which == "target":
                c = ps.IndicatorTarget(indicator=ind, value=P.int("ival", ph=7), **okw)
            else:
                kw = {}
                if which in ("bounds_both", "bounds_lower"):
                    kw["lower_bound"] = P.int("ilo", ph=1)
                if which in ("bounds_both", "bounds_upper"):
                    kw["upper_bound"] = P.int("ihi", ph=90)
                c = ps.IndicatorBounds(indicator=ind, **kw, **okw)
            return Ctx(problem=pb, tis=tis, ind=ind, which=which, cst=c, named={"applied": c._applied})

        def defs(ctx):
            v = ctx.ind._indicator_variable
            P = ctx.P
            g = to_z3(ctx.cst._applied)  # an optional constraint binds when applied (that it may be left unapplied: C10)
            d = [("user_expression", True, v == ctx.tis[0].s + 2 * ctx.tis[1].e - 3)]
            if ctx.which == "target":
                d.append(("target_holds", g, v == P.v("ival")))
            if ctx.which in ("bounds_both", "bounds_lower"):
                d.append(("lower_bound_holds", g, v >= P.v("ilo")))
            if ctx.which in ("bounds_both", "bounds_upper"):
                d.append(("upper_bound_holds", g, v <= P.v("ihi")))
            return d

        out.append(shape(f"indicator_constraint/{which}{'/optional' if copt else ''}", build, defs))
    return out


def shapes(tier):
    from checks import c03 as _c03d
    return (utilization_shapes(tier) + count_and_sum_shapes(tier) + idle_shapes(tier) + cost_shapes(tier)
            + buffer_and_expression_shapes(tier) + _c03d.default_shapes(PROP))


def main(tier):
    return run_property(
        PROP, "checks.c08", tier, "translation_validation",
        assumptions=[
            "utilisation: user horizon on a concrete grid (the code calls int() on it) or the symbolic horizon variable; value must be within one unit of 100*busy/horizon",
            "due dates >= 0; priorities and cost coefficients symbolic in small ranges (nonlinear products) and on a grid",
            "linear cost: exact integral of the cost function over each busy interval, within the rounding of the final division by 2",
            "general cost functions, polynomial costs beyond the documented trapezoid and the value of ObjectiveMinimizeFlowtimeSingleResource are outside the claim (DESIGN 4 C08)",
            "max lateness and min/max start objectives are stated over mandatory tasks",
            "utilisation / idle time of a CumulativeWorker is outside the claim",
        ])
