"""C19 - infeasibility diagnosis in debug mode. The real append_z3_assertion / initialize / unsat branch
of solve() run against the solver stub; the stub answers `unsat` and returns an explorer-chosen core
(every subset of the constraint-owned tracking literals when there are <= 6 of them, otherwise every
singleton, the full set, the empty set and complementary halves - always together with all basic-rule
literals). Obligations: tracking literals are fresh; a literal is mapped to constraint c iff its assertion
is one of c's own assertions; every constraint printed is a constraint of the problem and every
constraint-owned core literal's constraint IS printed (so, by monotonicity, basic rules + printed
constraints are unsat whenever the core is); the announced number equals the number printed.
Verdict part: the debug assertion set under all tracking literals is equivalent to the non-debug one."""
import itertools

import z3

import processscheduler as ps

from symx import engine, formula, stubs
from symx.formula import And, Or, Not
from symx.harness import Shape, Ob, Ctx, run_property, quiet, tracking_literals
from checks.common import make_task

PROP = "C19"


def declare(P, variant):
    pb = ps.SchedulingProblem(name="diag", horizon=P.int("hz", ph=20))
    due = "soft" if variant == "indicator" else None
    a = make_task(P, "A", "fixed", due=due)
    b = make_task(P, "B", "var", vmin=True, vmax=True, due=due)
    c = make_task(P, "C", "fixed", optional=True, due=due)
    w = ps.Worker(name="W")
    for t in (a, b, c):
        t.obj.add_required_resource(w)
    user = {}
    user["c_start"] = ps.TaskStartAt(name="c_start", task=a.obj, value=P.int("v1", ph=2))
    user["c_end"] = ps.TaskEndBefore(name="c_end", task=b.obj, value=P.int("v2", ph=9))
    if variant in ("fol", "all"):
        inner = ps.TaskStartAt(name="inner", task=b.obj, value=P.int("v3", ph=4))
        user["c_not"] = ps.Not(name="c_not", constraint=inner)
    if variant in ("many", "all"):
        # one constraint owning 12 assertions (4 intervals x 3 tasks)
        user["c_unav"] = ps.ResourceUnavailable(name="c_unav", resource=w, list_of_time_intervals=[(1, 2), (4, 5), (7, 8), (10, 11)])
    if variant == "medium":
        # 2 intervals x 3 tasks + 2: eight owned literals, every subset explored in the thorough tier
        user["c_unav"] = ps.ResourceUnavailable(name="c_unav", resource=w, list_of_time_intervals=[(1, 2), (7, 8)])
    if variant in ("optional", "all"):
        o1 = ps.TaskStartAt(name="o1", task=b.obj, value=3, optional=True)
        o2 = ps.TaskStartAt(name="o2", task=b.obj, value=5, optional=True)
        user["o1"], user["o2"] = o1, o2
        user["force"] = ps.ForceApplyNOptionalConstraints(name="force", list_of_optional_constraints=[o1, o2], nb_constraints_to_apply=1)
    if variant == "indicator":
        ind = ps.IndicatorTardiness()
        user["ibound"] = ps.IndicatorBounds(name="ibound", indicator=ind, lower_bound=0, upper_bound=3)
    return pb, user


def _owner_in(problem, assertion):
    for cname, c in problem.constraints.items():
        if c._created_from_assertion:
            continue
        if any(a.get_id() == assertion.get_id() for a in c.get_z3_assertions()):
            return cname
    return None


CORE_BOUND = [6]  # every subset of the owned literals up to this many (thorough: 9)


def core_chooser(holder):
    """cores: subsets of the literals whose assertion is owned by a user constraint (ownership decided
    by the harness from the constraints' own assertion lists, not from the solver's internal map)"""
    def choose(stub):
        pb = holder["solver"].problem
        owned = sorted(n for n, a in stub.tracked.items() if _owner_in(pb, a) is not None)
        basic = sorted(n for n in stub.tracked if n not in owned)
        cands = []
        if len(owned) <= CORE_BOUND[0]:
            for r in range(len(owned) + 1):
                cands += [list(c) for c in itertools.combinations(owned, r)]
        else:
            cands = [[]] + [[m] for m in owned] + [list(owned), owned[::2], owned[1::2], owned[: len(owned) // 2], owned[len(owned) // 2:]]
        k = stub.ex.choose(len(cands), "core") if len(cands) > 1 else 0
        holder["core"] = cands[k] + basic
        return [z3.Bool(n) for n in sorted(cands[k] + basic)]
    return choose


def diag_shape(variant):
    name = f"diagnosis/{variant}"

    def build(P):
        import processscheduler.solver as pss

        pb, user = declare(P, variant)
        holder = {}
        printed = []
        saved_print = pss.print if hasattr(pss, "print") else print

        def rec_print(*a, **kw):
            printed.append(a)

        with stubs.stubbed(P.ex, max_checks=2, script=[z3.unsat], holder=holder, core_mode=core_chooser(holder)) as (solvers, proxy):
            pss.print = rec_print
            try:
                solver = ps.SchedulingSolver(problem=pb, debug=True)
                holder["solver"] = solver
                result = solver.solve()
            finally:
                pss.print = saved_print
        return Ctx(problem=pb, user=user, solver=solver, stub=solvers[0], result=result, printed=printed, core=holder.get("core", []))

    def obligations(ctx):
        return [Ob(f"{PROP}/{name}/{n}", "custom", fn=f, replayer="checks.c19:replay_diag") for n, f in OBLIGATIONS.items()]

    sh = Shape(name, build, obligations, initialize=False)
    sh.grid = False
    sh.variant = variant
    return sh


def _target(ctx, assertion):
    """(owner constraint name, index of the assertion inside that constraint) - stable across builds"""
    for cname, c in ctx.problem.constraints.items():
        if c._created_from_assertion:
            continue
        for i, a in enumerate(c.get_z3_assertions()):
            if a.get_id() == assertion.get_id():
                return [cname, i]
    return None


def _viol(ctx, path, what, targets=()):
    base = [formula.to_z3(x) for x in list(path.assume) + list(path.pc)]
    targets = list(targets)
    if targets:
        # pick parameters for which the conflict can be isolated on the first target assertion:
        # some schedule satisfies every other assertion and violates that one
        t0 = targets[0]
        iso = [a for a in ctx.stub.tracked.values() if a.get_id() != t0.get_id()] + [z3.Not(t0)]
        v, m, _ = formula.solve_shrunk(base + iso, 20000)
        if v == "sat":
            params = {n: (formula.val(m, t) if z3.is_expr(t) else t) for n, t in ctx.P.terms.items()}
            tg = [t for t in (_target(ctx, a) for a in targets[:1]) if t]
            return {"status": "sat", "queries": 1, "witness": {"params": params, "pins": {}, "what": what, "core": list(ctx.core), "targets": tg}}
    v, m, _ = formula.solve(base, 20000)
    if v != "sat":
        return {"status": "unsat" if v == "unsat" else "unknown", "queries": 1}
    params = {n: (formula.val(m, t) if z3.is_expr(t) else t) for n, t in ctx.P.terms.items()}
    tg = [t for t in (_target(ctx, a) for a in targets) if t]
    return {"status": "sat", "queries": 1, "witness": {"params": params, "pins": {}, "what": what, "core": list(ctx.core), "targets": tg}}


def _owner(ctx, assertion):
    """name of the top-level constraint owning this assertion (None: a basic rule)"""
    for cname, c in ctx.problem.constraints.items():
        if c._created_from_assertion:
            continue
        if any(a.get_id() == assertion.get_id() for a in c.get_z3_assertions()):
            return cname
    return None


def ob_literals_and_map(ctx, path):
    """tracking literals are pairwise distinct, and every assertion of every top-level constraint is
    handed to the solver (tracked) in debug mode"""
    stub = ctx.stub
    n_track = sum(1 for c in stub.calls if c[0] == "assert_and_track")
    if len(stub.tracked) != n_track:
        return _viol(ctx, path, f"{n_track} tracked assertions but only {len(stub.tracked)} distinct tracking literals")
    tracked_ids = {a.get_id() for a in stub.tracked.values()}
    for cname, c in ctx.problem.constraints.items():
        if c._created_from_assertion:
            continue
        for a in c.get_z3_assertions():
            if a.get_id() not in tracked_ids:
                return _viol(ctx, path, f"an assertion of constraint {cname} is not handed to the solver in debug mode: {a}", [a])
    return {"status": "unsat", "queries": 0}


def ob_printed(ctx, path):
    if ctx.result is not False:
        return _viol(ctx, path, "unsat verdict but solve() did not return False")
    printed_objs = [a[0] for a in ctx.printed if len(a) == 1 and isinstance(a[0], ps.Constraint)]
    for c in printed_objs:
        if ctx.problem.constraints.get(c.name) is not c:
            return _viol(ctx, path, f"printed constraint {c.name} is not a constraint of the problem")
    # owners of the core literals, computed independently of the solver's own bookkeeping
    need_spec = {_owner(ctx, ctx.stub.tracked[n]) for n in ctx.core} - {None}
    got = {c.name for c in printed_objs}
    if need_spec - got:
        missing = [ctx.stub.tracked[n] for n in ctx.core if _owner(ctx, ctx.stub.tracked[n]) in (need_spec - got)]
        return _viol(ctx, path, f"core {ctx.core} involves constraints {sorted(need_spec)} but only {sorted(got)} are listed", missing)
    if got - need_spec:
        return _viol(ctx, path, f"constraints {sorted(got - need_spec)} are listed although the core does not involve them")
    header = [a[0] for a in ctx.printed if a and isinstance(a[0], str) and "conflict between" in a[0]]
    if header:
        import re

        m = re.search(r"conflict between (\d+) constraints", header[0])
        if m and int(m.group(1)) < len(got):
            return _viol(ctx, path, f"announces {m.group(1)} constraints, lists {len(got)}")
    return {"status": "unsat", "queries": 0}


OBLIGATIONS = {"literals_fresh_and_all_assertions_tracked": ob_literals_and_map, "listed_constraints_cover_the_core": ob_printed}


def verdict_shape(variant):
    """debug mode never changes the constraint system: phi_debug under all tracking literals == phi"""
    name = f"verdict/{variant}"

    def build(P):
        pb, user = declare(P, variant)
        s0 = ps.SchedulingSolver(problem=pb)
        s0.initialize()
        phi0 = list(s0._solver.assertions())
        dbg = ps.SchedulingSolver(problem=pb, debug=True)
        return Ctx(problem=pb, phi0=phi0, early_solver=dbg)

    def obligations(ctx):
        c0, _ = formula.constants(ctx.phi0)
        lits = tracking_literals(ctx.phi)
        body = [a.arg(1) if (z3.is_implies(a) and any(a.arg(0).eq(l) for l in lits)) else a for a in ctx.phi]
        return [Ob(f"{PROP}/{name}/debug_admits_nothing_more", "sound", clause=And(ctx.phi0)),
                Ob(f"{PROP}/{name}/debug_loses_nothing", "sound", clause=And(body), phi=ctx.phi0)]

    sh = Shape(name, build, obligations)
    sh.grid_limit = 2
    return sh


def replay_diag(desc):
    """Real z3, real debug mode, no stub. The concrete problem is made infeasible exactly through the
    assertion the counterexample's core involves: the schedule is pinned (user constraints) to a model of
    'everything except that assertion'. The constraints the real solver then prints must, together with
    the basic rules, admit no schedule."""
    import io
    import contextlib
    import symx.harness as H
    import processscheduler.solver as pss

    shape = H.get_shape(desc["module"], desc["shape"])
    w = desc["witness"]
    printed = []
    saved = pss.print if hasattr(pss, "print") else print
    results = []
    for tgt in (w.get("targets") or [])[:3]:
        with contextlib.redirect_stdout(io.StringIO()), contextlib.redirect_stderr(io.StringIO()):
            P = engine.Params("conc", values=w["params"])
            pb, user = declare(P, shape.variant)
            s0 = ps.SchedulingSolver(problem=pb)
            s0.initialize()
            allasst = list(s0._solver.assertions())
            target = pb.constraints[tgt[0]].get_z3_assertions()[tgt[1]]
            finder = z3.Solver()
            finder.add([a for a in allasst if a.get_id() != target.get_id()])
            finder.add(z3.Not(target))
            if finder.check() != z3.sat:
                results.append((tgt, "cannot isolate"))
                continue
            m = finder.model()
            consts, _ = formula.constants(allasst)
            k = 0
            for n, c in consts.items():
                if "!" in n or n == "horizon" or n.startswith("Indicator_"):
                    continue
                v = m.eval(c, model_completion=True)
                ps.ConstraintFromExpression(name=f"pin_{k}", expression=c == v)
                k += 1
            solver = ps.SchedulingSolver(problem=pb, debug=True)
            printed.clear()
            pss.print = lambda *a, **kw: printed.append(a)
            try:
                r = solver.solve()
            finally:
                pss.print = saved
            listed = [a[0] for a in printed if len(a) == 1 and isinstance(a[0], ps.Constraint)]
            names = {c.name for c in listed}
            chk = z3.Solver()
            for a in solver._solver.assertions():
                lit = a.arg(0).decl().name()
                owner = None
                for cname, c in pb.constraints.items():
                    if not c._created_from_assertion and any(x.get_id() == a.arg(1).get_id() for x in c.get_z3_assertions()):
                        owner = cname
                if owner is None or owner in names:
                    chk.add(a.arg(1))
            still_unsat = chk.check() == z3.unsat
            bad = [c.name for c in listed if pb.constraints.get(c.name) is not c]
        engine.reset_z3_globals()
        results.append((tgt, r, sorted(n for n in names if not n.startswith("pin_")), still_unsat, bad))
        print(f"replay: conflict through {tgt}: solve() -> {r}; listed (pins omitted) {results[-1][2]}; basic rules + listed constraints unsat: {still_unsat}")
        if r is False and not still_unsat:
            print("CONFIRMED: the constraints listed as conflicting, together with the basic rules, admit a schedule")
            return 1
        if bad:
            print(f"CONFIRMED: listed constraints {bad} are not constraints of the problem")
            return 1
    return 0


def shapes(tier):
    CORE_BOUND[0] = 9 if tier == "thorough" else 6
    out = [diag_shape(v) for v in ("plain", "fol", "many", "optional", "indicator", "all") + (("medium",) if tier == "thorough" else ())]
    out += [verdict_shape(v) for v in ("plain", "fol", "many", "optional", "indicator")]
    return out


def main(tier):
    return run_property(
        PROP, "checks.c19", tier, "model_checking",
        assumptions=[
            "solver stub contract: the unsat core is a subset of the tracked literals whose assertions are jointly unsat; cores explored: all subsets of the constraint-owned literals when <= 6 (thorough: 9), otherwise empty/singletons/full/halves, always with every basic-rule literal",
            "'basic rules' = every assertion not owned by a user constraint (task, resource, buffer, horizon, indicator definitions)",
            "monotonicity argument: if every core literal is a basic rule or owned by a listed constraint, basic rules + listed constraints contain the (unsat) core",
            "z3's own unsat-core extraction is trusted; the replay re-solves the listed subset with the real z3",
        ])
