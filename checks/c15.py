"""C15 - solver options change performance/search order only, never validity.
For every configuration (optimizer x optimize_priority x parallel x random_values x debug x logics) the
real SchedulingSolver is constructed and initialised on the same parametric problem as the default
configuration, in one symbolic run; the two assertion sets must denote the same constraint system (two
quantified halves, debug mode under all tracking literals) and the objective wiring must be the declared
one. z3's own behaviour under an option is trusted (stated); a concrete layer runs the real z3 under each
configuration on small instances and compares definite verdicts and optima."""
import itertools

import z3

import processscheduler as ps

from symx import engine, formula
from symx.formula import And, Or, Not
from symx.harness import library_failure, confirm_library_failure, Shape, Ob, Ctx, run_property, quiet, tracking_literals
from checks import c14

PROP = "C15"

LOGICS = [None, "QF_LIA", "QF_IDL", "QF_UFLIA", "QF_LRA", "QF_AUFLIA", "QF_UFNIA"]


def configs(tier):
    full = []
    for opt, prio, par, rnd, dbg, lg in itertools.product(("incremental", "optimize"), ("pareto", "lex", "box", "weight"),
                                                          (False, True), (False, True), (False, True), LOGICS):
        cfg = {}
        if opt != "incremental":
            cfg["optimizer"] = opt
        if prio != "pareto":
            cfg["optimize_priority"] = prio
        if par:
            cfg["parallel"] = True
        if rnd:
            cfg["random_values"] = True
        if dbg:
            cfg["debug"] = True
        if lg:
            cfg["logics"] = lg
        if cfg:
            full.append(cfg)
    verbose = [{"verbosity": 1}, {"verbosity": 2}, {"verbosity": 2, "debug": True}, {"verbosity": 1, "optimizer": "optimize", "parallel": True}]
    if tier == "thorough":
        return full + verbose + [dict(c, verbosity=2) for c in full[::40]]
    # quick: every single option, every pair of options (one value combination each), a few triples
    single = [c for c in full if len(c) == 1]
    pairs = [c for c in full if len(c) == 2 and c.get("optimize_priority", "lex") == "lex" and c.get("logics", "QF_LIA") in ("QF_LIA", "QF_IDL")]
    triples = [c for c in full if len(c) == 3 and c.get("debug") and c.get("optimize_priority", "weight") == "weight" and c.get("logics", "QF_UFLIA") == "QF_UFLIA"]
    return single + pairs + triples[:8] + verbose


def cfg_tag(cfg):
    return ",".join(f"{k}={v}" for k, v in sorted(cfg.items()))


def equiv_shape(variant, cfg):
    name = f"equivalent_system/{variant}/{cfg_tag(cfg)}"

    def build(P):
        # the same problem is declared twice (same names => same z3 constants): one solver object per
        # problem, as a user comparing two configurations would do
        pb0, obs0 = c14.build_rich(P, dict(c14.CANON), {}, variant)
        s0 = ps.SchedulingSolver(problem=pb0)
        s0.initialize()
        phi0 = list(s0._solver.assertions())
        pb, obs = c14.build_rich(P, dict(c14.CANON), {}, variant)
        s1 = ps.SchedulingSolver(problem=pb, **cfg)
        return Ctx(problem=pb, phi0=phi0, solver0=s0, early_solver=s1, obs={k: v for k, v, _ in obs})

    def obligations(ctx):
        phi1 = list(ctx.phi)
        lits = tracking_literals(phi1) if cfg.get("debug") else []
        if lits:
            phi1 = [a.arg(1) if (z3.is_implies(a) and any(a.arg(0).eq(l) for l in lits)) else a for a in phi1]
        c0, _ = formula.constants(ctx.phi0)
        c1, _ = formula.constants(phi1)
        shared = [c for n, c in c0.items() if n in c1]
        obs = [Ob(f"{PROP}/{name}/admits_nothing_more", "complete", valid=And(phi1), observables=shared, phi=ctx.phi0,
                  replayer="checks.c15:replay_config", extra={"side": "config_admits_more"}),
               Ob(f"{PROP}/{name}/loses_nothing", "complete", valid=And(ctx.phi0), observables=shared, phi=phi1,
                  replayer="checks.c15:replay_config", extra={"side": "config_loses"}),
               Ob(f"{PROP}/{name}/objective_wiring", "custom", fn=_wiring, replayer="checks.c15:replay_config", extra={"side": "wiring"})]
        return obs

    sh = Shape(name, build, obligations)
    sh.grid_limit = 1
    sh.cfg, sh.variant = cfg, variant
    return sh


def _wiring(ctx, path):
    """the objective handed to the optimiser is the declared one, in the declared direction"""
    s1 = ctx.solver
    # the objectives the user declared (initialize() registers its own equivalent objective in the problem)
    objs = [o for o in ctx.problem.objectives.values() if o.name != "MinimizeEquivalentObjective"]
    if not objs:
        return {"status": "unsat", "queries": 0}
    if isinstance(s1._solver, z3.Optimize) and not (len(objs) > 1 and s1.optimize_priority == "weight"):
        got = list(s1._solver.objectives())
        want = [(o._target if o.kind == "minimize" else -o._target) for o in objs]
        # z3 stores maximize(t) as minimize(-t)
        ok = len(got) == len(want) and all(z3.simplify(g - w).eq(z3.IntVal(0)) or z3.simplify(g == w).eq(z3.BoolVal(True)) for g, w in zip(got, want))
        if not ok:
            return {"status": "sat", "queries": 0, "witness": {"params": {}, "pins": {}, "what": f"Optimize objectives {got} differ from the declared {[(o.kind, o._target) for o in objs]}"}}
        return {"status": "unsat", "queries": 0}
    tgt = s1._objective._target if s1._objective is not None else None
    if tgt is None:
        return {"status": "sat", "queries": 0, "witness": {"params": {}, "pins": {}, "what": "objectives declared but none wired"}}
    if len(objs) == 1:
        ok = tgt.eq(objs[0]._target) and s1._objective.kind == objs[0].kind
        return {"status": "unsat", "queries": 0} if ok else {"status": "sat", "queries": 0, "witness": {"params": {}, "pins": {}, "what": "single objective not wired as declared"}}
    spec = formula.Sum([formula.to_z3(o.weight) * o._target for o in objs])
    phi1 = list(ctx.phi)
    lits = tracking_literals(phi1)
    base = [formula.to_z3(x) for x in list(path.assume) + list(path.pc)] + lits
    v, m, _ = formula.solve(base + phi1 + [tgt != spec], 20000)
    if v == "unsat" and s1._objective.kind == objs[0].kind:
        return {"status": "unsat", "queries": 1}
    return {"status": "sat" if v != "unknown" else "unknown", "queries": 1, "witness": {"params": {}, "pins": {}, "what": "weighted objective is not the weighted sum of the declared objectives"}}


# ---- concrete layer ------------------------------------------------------------------------------------
def _instance(kind):
    pb = ps.SchedulingProblem(name=f"inst_{kind}", **({"horizon": 12} if kind == "feasible" else {"horizon": 5} if kind == "infeasible" else {}))
    a = ps.FixedDurationTask(name="A", duration=3)
    b = ps.FixedDurationTask(name="B", duration=4)
    c = ps.VariableDurationTask(name="C", min_duration=1, max_duration=3, optional=True)
    w = ps.Worker(name="W")
    for t in (a, b, c):
        t.add_required_resource(w)
    ps.TaskPrecedence(task_before=a, task_after=b, offset=1)
    if kind == "objective":
        ps.ObjectiveMinimizeMakespan()
    return pb, [a, b, c]


def concrete_shape(kind, cfg):
    name = f"real_z3/{kind}/{cfg_tag(cfg) or 'default'}"

    def build(P):
        return Ctx(problem=None)

    @library_failure
    def fn(ctx, path):
        problems = run_concrete(kind, cfg)
        if problems:
            return {"status": "sat", "queries": 1, "witness": {"params": {}, "pins": {}, "what": problems[0]}}
        return {"status": "unsat", "queries": 1}

    def obligations(ctx):
        return [Ob(f"{PROP}/{name}/definite_answers_agree_and_are_valid", "custom", fn=fn, replayer="checks.c15:replay_concrete")]

    sh = Shape(name, build, obligations, initialize=False)
    sh.grid = False
    sh.kind, sh.cfg = kind, cfg
    return sh


def run_concrete(kind, cfg):
    import warnings

    problems = []
    with quiet(), warnings.catch_warnings():
        warnings.simplefilter("ignore")
        pb0, t0 = _instance(kind)
        ref = ps.SchedulingSolver(problem=pb0)
        ref.initialize()
        base = list(ref._solver.assertions())
        oracle = z3.Optimize()
        oracle.add(base)
        if kind == "objective":
            oracle.minimize(pb0._horizon)
        feasible = oracle.check() == z3.sat
        best = oracle.model().eval(pb0._horizon).as_long() if (feasible and kind == "objective") else None
        pb, ts = _instance(kind)
        try:
            solver = ps.SchedulingSolver(problem=pb, **cfg)
            sol = solver.solve()
            err = None
        except Exception as e:  # a logic that does not cover the problem may make z3 raise: not a definite answer
            sol, err = None, e
    engine.reset_z3_globals()
    if err is not None:
        return []
    if sol is False:
        # unsat or unknown: only unsat is definite; ask the oracle
        if feasible and "timeout" not in str(getattr(solver._solver, "reason_unknown", lambda: "")()):
            reason = solver._solver.reason_unknown() if hasattr(solver._solver, "reason_unknown") else ""
            if not reason:
                problems.append(f"configuration {cfg} reports no solution on a feasible problem")
        return problems
    if not feasible:
        return [f"configuration {cfg} returns a schedule for an infeasible problem"]
    chk = z3.Solver()
    chk.add(base)
    for t in t0:
        ts_ = sol.tasks[t.name]
        if ts_.scheduled:
            chk.add(t._start == ts_.start, t._end == ts_.end)
        if t._scheduled is not True:
            chk.add(t._scheduled == ts_.scheduled)
    if chk.check() != z3.sat:
        problems.append(f"configuration {cfg} returned an invalid schedule: { {n: (t.start, t.end, t.scheduled) for n, t in sol.tasks.items()} }")
    if kind == "objective" and sol.horizon != best and cfg.get("optimize_priority", "pareto") in ("pareto", "lex", "box", "weight"):
        problems.append(f"configuration {cfg} returned makespan {sol.horizon}, the optimum is {best}")
    return problems


@confirm_library_failure
def replay_concrete(desc):
    import symx.harness as H

    shape = H.get_shape(desc["module"], desc["shape"])
    problems = run_concrete(shape.kind, shape.cfg)
    print("replay:", problems)
    if problems:
        print("CONFIRMED: " + problems[0])
        return 1
    return 0


def replay_config(desc):
    """Real z3: the witness schedule is pinned on a solver with the default configuration and on one with
    the configuration under test; one accepts it and the other rejects it."""
    import symx.harness as H

    shape = H.get_shape(desc["module"], desc["shape"])
    w = desc["witness"]
    if desc["extra"]["side"] == "wiring":
        print("replay: wiring mismatch is structural:", w.get("what"))
        P = engine.Params("conc", values=w.get("params") or {})
        with quiet():
            pb, obs = c14.build_rich(P, dict(c14.CANON), {}, shape.variant)
            s1 = ps.SchedulingSolver(problem=pb, **shape.cfg)
            s1.initialize()
        engine.reset_z3_globals()
        objs = [o for o in pb.objectives.values() if o.name != "MinimizeEquivalentObjective"]
        if isinstance(s1._solver, z3.Optimize):
            got = list(s1._solver.objectives())
            if len(got) != len(objs) and not (len(objs) > 1 and s1.optimize_priority == "weight"):
                print("CONFIRMED: objectives registered with z3.Optimize differ from the declared ones")
                return 1
        return 0
    P = engine.Params("conc", values=w["params"])
    with quiet():
        pins = []
        for n, v in w["pins"].items():
            if "!" in n:
                continue
            pins.append(z3.Bool(n) == z3.BoolVal(v) if isinstance(v, bool) else z3.Int(n) == v)
        pb0, obs0 = c14.build_rich(P, dict(c14.CANON), {}, shape.variant)
        s0 = ps.SchedulingSolver(problem=pb0)
        s0.initialize()
        pb, obs = c14.build_rich(engine.Params("conc", values=w["params"]), dict(c14.CANON), {}, shape.variant)
        s1 = ps.SchedulingSolver(problem=pb, **shape.cfg)
        s1.initialize()
        for e in pins:
            s0.append_z3_assertion(e)
            s1.append_z3_assertion(e)
        r0 = s0._solver.check()
        r1 = s1._solver.check()
    engine.reset_z3_globals()
    print(f"replay: pinned schedule: default configuration -> {r0}; {shape.cfg} -> {r1}")
    side = desc["extra"]["side"]
    if side == "config_admits_more" and r1 == z3.sat and r0 == z3.unsat:
        print("CONFIRMED: the configuration admits a schedule the default configuration rejects")
        return 1
    if side == "config_loses" and r0 == z3.sat and r1 == z3.unsat:
        print("CONFIRMED: the configuration rejects a schedule the default configuration admits")
        return 1
    return 0


def shapes(tier):
    out = []
    cfgs = configs(tier)
    variants = ["plain", "select", "buffer", "objective"] if tier == "thorough" else ["plain", "objective", "select"]
    for i, cfg in enumerate(cfgs):
        for j, variant in enumerate(variants):
            if tier == "quick" and variant == "select" and i % 3:
                continue
            out.append(equiv_shape(variant, cfg))
    conc = [{}, {"optimizer": "optimize"}, {"parallel": True}, {"random_values": True}, {"debug": True}, {"logics": "QF_LIA"},
            {"logics": "QF_IDL"}, {"logics": "QF_UFLIA"}, {"optimizer": "optimize", "optimize_priority": "lex"},
            {"optimizer": "optimize", "optimize_priority": "box", "parallel": True}, {"debug": True, "random_values": True, "logics": "QF_LIA"}, {"verbosity": 2}]
    for kind in ("feasible", "infeasible", "objective"):
        for cfg in conc:
            out.append(concrete_shape(kind, cfg))
    # the optimisers agree on the optimal value: Optimize returns an optimum by contract, so the incremental
    # optimiser must only ever claim an optimum that is one - under every option (traces of C07, solver stub)
    from checks import c07
    opts = [{}, {"debug": True}, {"parallel": True}, {"random_values": True}, {"logics": "QF_LIA"}]
    if tier == "thorough":
        opts += [{"logics": "QF_IDL"}, {"debug": True, "parallel": True, "random_values": True}]
    for obj, weights in (("makespan", None), ("makespan_either_order", None), ("min_bounded", None), ("max_bounded", None), ("max_user", None), ("min_cost", None), ("max_utilization", None), ("weighted_min", ("sym", "sym")),
                         ("weighted_bounded_first", None), ("weighted_bounded_last", None)):
        for cfg in opts:
            out.append(c07.trace_shape(obj, cfg, max_checks=5, weights=weights, prop=PROP, only=("optimum_claim_justified", "objective_wiring"), prefix="optimisers_agree"))
    return out


def main(tier):
    return run_property(
        PROP, "checks.c15", tier, "translation_validation",
        assumptions=[
            "validity of a schedule is a property of the assertion set: equal assertion sets (as constraint systems) admit the same schedules under every configuration; this equality is what is decided",
            "z3's own handling of parallel mode, seeds, SolverFor(logic), Optimize priorities is trusted; it is exercised only by the concrete layer (real z3, three small instances, 11 configurations; trace validation)",
            "quick: every single option, option pairs and some triples; thorough: the full product of optimizer x priority x parallel x random_values x debug x 7 logics",
            "optimisers agree: the incremental optimiser's optimum claims are justified on the solver stub (<= 5 checks, 7 objective kinds x 5/7 option sets); Optimize.check() returns an optimum by contract",
            "objective wiring: Optimize objectives compared with the declared ones (z3 stores maximize(t) as minimize(-t)); incremental target compared with the (weighted sum of the) declared objective(s)",
        ])
