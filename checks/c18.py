"""C18 - ill-formed model elements are rejected at creation, well-formed ones accepted.
(A) Q-region, per integer parameter: accepted region of the real constructor = constraints DECLARED on the
    field (read from the real class, they become the symbol's assumptions) AND the non-raising paths of the
    symbolically executed constructor body; the solver decides  Accept_real(p) XOR Accept_spec(p)  over all
    integers; any witness is replayed on the unpatched constructor.
(B) boundary grid: every parameter at the values around its boundary on the real, unpatched constructors
    (ties the declared metadata to pydantic-core's behaviour).
(C) finite class-level rules (optional-task rule on a mandatory task, force-apply over a mandatory
    constraint, resource constraint on an unassigned resource, element created with no problem, duplicate
    names per registry over all equality patterns of three insertions): enumerated on both sides."""
import itertools

import z3

import processscheduler as ps
import processscheduler.base as psbase

from symx import engine, formula
from symx.formula import And, Or, Not
from symx.harness import Shape, Ob, Ctx, run_property, quiet

PROP = "C18"


def _pb():
    return ps.SchedulingProblem(name="v")


def _workers(n):
    return [ps.Worker(name=f"W{i}") for i in range(n)]


# (name, constructor taking the value v, specification predicate over a z3 term / int)
INT_PARAMS = {
    "FixedDurationTask.duration": (lambda v: ps.FixedDurationTask(name="T", duration=v), lambda v: v > 0, 1),
    "FixedDurationTask.work_amount": (lambda v: ps.FixedDurationTask(name="T", duration=2, work_amount=v), lambda v: v >= 0, 0),
    "FixedDurationTask.priority": (lambda v: ps.FixedDurationTask(name="T", duration=2, priority=v), lambda v: v >= 0, 1),
    "ZeroDurationTask.priority": (lambda v: ps.ZeroDurationTask(name="T", priority=v), lambda v: v >= 0, 1),
    "VariableDurationTask.min_duration": (lambda v: ps.VariableDurationTask(name="T", min_duration=v), lambda v: v >= 0, 0),
    "VariableDurationTask.max_duration": (lambda v: ps.VariableDurationTask(name="T", max_duration=v), lambda v: v > 0, 1),
    "VariableDurationTask.work_amount": (lambda v: ps.VariableDurationTask(name="T", work_amount=v), lambda v: v >= 0, 0),
    "VariableDurationTask.allowed_durations[1]": (lambda v: ps.VariableDurationTask(name="T", allowed_durations=[2, v]), lambda v: v > 0, 1),
    "FixedDurationTask.release_date": (lambda v: ps.FixedDurationTask(name="T", duration=2, release_date=v), lambda v: True, 1),
    "TaskPrecedence.offset": (lambda v: ps.TaskPrecedence(task_before=ps.FixedDurationTask(name="T", duration=2), task_after=ps.FixedDurationTask(name="U", duration=2), offset=v), lambda v: v >= 0, 0),
    "Worker.productivity": (lambda v: ps.Worker(name="W", productivity=v), lambda v: v >= 0, 1),
    "SelectWorkers.nb_workers_to_select(2 listed)": (lambda v: ps.SelectWorkers(list_of_workers=_workers(2), nb_workers_to_select=v), lambda v: And(v >= 1, v <= 2) if z3.is_expr(v) else 1 <= v <= 2, 1),
    "SelectWorkers.nb_workers_to_select(3 listed)": (lambda v: ps.SelectWorkers(list_of_workers=_workers(3), nb_workers_to_select=v), lambda v: And(v >= 1, v <= 3) if z3.is_expr(v) else 1 <= v <= 3, 1),
    "SelectWorkers.nb_workers_to_select(worker + cumulative(3) listed)": (
        lambda v: ps.SelectWorkers(list_of_workers=[ps.Worker(name="W0"), ps.CumulativeWorker(name="CW", size=3)], nb_workers_to_select=v),
        lambda v: And(v >= 1, v <= 2) if z3.is_expr(v) else 1 <= v <= 2, 1),
    "ForceScheduleNOptionalTasks.nb_tasks_to_schedule": (
        lambda v: ps.ForceScheduleNOptionalTasks(list_of_optional_tasks=[ps.FixedDurationTask(name="T", duration=1, optional=True), ps.FixedDurationTask(name="U", duration=1, optional=True)], nb_tasks_to_schedule=v),
        lambda v: v > 0, 1),
    "ForceApplyNOptionalConstraints.nb_constraints_to_apply": (
        lambda v: ps.ForceApplyNOptionalConstraints(list_of_optional_constraints=[ps.TaskStartAt(task=ps.FixedDurationTask(name="T", duration=1), value=1, optional=True)], nb_constraints_to_apply=v),
        lambda v: v > 0, 1),
}
# parameters that reach a concretisation point in the constructor body (range(), Pb*): boundary grid only
GRID_ONLY = {
    "CumulativeWorker.size": (lambda v: ps.CumulativeWorker(name="CW", size=v), lambda v: v >= 2),
    "CumulativeWorker.productivity": (lambda v: ps.CumulativeWorker(name="CW", size=2, productivity=v), lambda v: v > 0),
    "SelectWorkers.len(list_of_workers)": (lambda v: ps.SelectWorkers(list_of_workers=_workers(v), nb_workers_to_select=1), lambda v: v >= 2),
    "SchedulingProblem.horizon": (lambda v: ps.SchedulingProblem(name="h", horizon=v), lambda v: v > 0),
}
GRID = [-3, -1, 0, 1, 2, 3, 4, 7, 1000]


def _library_raise(exc):
    """True when the exception was raised by a `raise` statement of processscheduler (a rejection),
    False when it surfaced inside z3/builtins because a symbol reached a concretisation point."""
    tb = exc.__traceback__
    last = None
    while tb is not None:
        last = tb
        tb = tb.tb_next
    return last is not None and "/processscheduler/" in last.tb_frame.f_code.co_filename


def region_ob(pname):
    ctor, spec, ph = INT_PARAMS[pname]

    def fn(ctx, path):
        ex = engine.Explorer()

        def run():
            P = engine.Params("sym", explorer=ex)
            _pb()
            return ctor(P.int("v", ph=ph))

        with quiet():
            paths = ex.run(run)
        v = z3.Int("p_v")
        accepted = []
        artefacts = 0
        for p in paths:
            cond = And([formula.to_z3(x) for x in list(p.assume) + list(p.pc)])
            if p.exc is None:
                accepted.append(cond)
            elif not _library_raise(p.exc):
                # symbol reached z3.Pb*/range(): everything before it was accepted; the rest is covered by the grid
                accepted.append(cond)
                artefacts += 1
        accept_real = Or(accepted)
        accept_spec = formula.to_z3(spec(v))
        verdict, m, _ = formula.solve_shrunk([z3.Xor(accept_real, accept_spec)], 20000)
        if verdict == "unsat":
            return {"status": "unsat", "queries": 1, "note": f"{len(paths)} paths, {artefacts} cut at a concretisation point",
                    "smt_sample": f"Accept_real = {z3.simplify(accept_real)}  ;  Accept_spec = {accept_spec}"}
        if verdict == "sat":
            val = formula.val(m, v)
            return {"status": "sat", "queries": 1, "witness": {"params": {"v": val}, "pins": {}, "what": f"{pname} = {val}: accepted region {z3.simplify(accept_real)} differs from the well-formed region {accept_spec}"}}
        return {"status": "unknown", "queries": 1}

    return Ob(f"{PROP}/region/{pname}/accepted_region_equals_wellformed_region", "custom", fn=fn, replayer="checks.c18:replay_ctor", extra={"param": pname})


def _try(ctor, v):
    with quiet():
        _pb()
        try:
            ctor(v)
            return True, None
        except Exception as e:  # any error is a rejection
            return False, f"{type(e).__name__}"


def grid_ob(pname, table):
    ctor, spec = table[pname][0], table[pname][1]

    def fn(ctx, path):
        bad = []
        for v in GRID:
            if pname.startswith("SelectWorkers.len") and v > 7:
                continue
            if pname.startswith("CumulativeWorker.size") and v > 7:
                continue
            ok, err = _try(ctor, v)
            want = bool(spec(v))
            if ok != want:
                bad.append((v, ok, err))
        if bad:
            v, ok, err = bad[0]
            return {"status": "sat", "queries": len(GRID), "witness": {"params": {"v": v}, "pins": {}, "what": f"{pname} = {v} is {'accepted' if ok else 'rejected (' + str(err) + ')'} but is {'ill' if ok else 'well'}-formed"}}
        return {"status": "unsat", "queries": len(GRID)}

    return Ob(f"{PROP}/grid/{pname}/boundary_values", "custom", fn=fn, replayer="checks.c18:replay_ctor", extra={"param": pname})


def replay_ctor(desc):
    pname = desc["extra"]["param"]
    table = INT_PARAMS if pname in INT_PARAMS else GRID_ONLY
    ctor, spec = table[pname][0], table[pname][1]
    v = desc["witness"]["params"]["v"]
    ok, err = _try(ctor, v)
    want = bool(spec(v)) if not z3.is_expr(spec(v)) else z3.is_true(z3.simplify(spec(z3.IntVal(v))))
    print(f"replay: {pname} = {v}: real constructor {'accepts' if ok else 'rejects (' + str(err) + ')'}; well-formed: {want}")
    if ok != want:
        print(f"CONFIRMED: {pname} = {v} is {'silently accepted' if ok else 'rejected'} although it is {'ill' if ok else 'well'}-formed")
        return 1
    return 0


# ---- (C) class-level rules ---------------------------------------------------------------------------
def _rule_cases():
    cases = []  # (id, thunk, must_raise)

    def opt_task(opt):
        return ps.FixedDurationTask(name="T", duration=2, optional=opt)

    for opt in (False, True):
        cases.append((f"OptionalTaskForceSchedule/task_optional={opt}", lambda opt=opt: ps.OptionalTaskForceSchedule(task=opt_task(opt), to_be_scheduled=True), not opt))
        cases.append((f"OptionalTaskConditionSchedule/task_optional={opt}", lambda opt=opt: ps.OptionalTaskConditionSchedule(task=opt_task(opt), condition=z3.Bool("c")), not opt))
        cases.append((f"OptionalTasksDependency/task_2_optional={opt}", lambda opt=opt: ps.OptionalTasksDependency(task_1=ps.FixedDurationTask(name="M", duration=1), task_2=opt_task(opt)), not opt))
    # the rule depends on the named task only: every combination of the *other* flags too (task_1 optional or not,
    # forced to be scheduled or to be left out) -- a rule relaxed when task_1 is optional was a round-6 seed
    for o1, o2 in itertools.product((False, True), repeat=2):
        cases.append((f"OptionalTasksDependency/task_1_optional={o1},task_2_optional={o2}",
                      lambda o1=o1, o2=o2: ps.OptionalTasksDependency(task_1=ps.FixedDurationTask(name="M", duration=1, optional=o1), task_2=opt_task(o2)), not o2))
        cases.append((f"OptionalTasksDependency/variable_tasks/task_1_optional={o1},task_2_optional={o2}",
                      lambda o1=o1, o2=o2: ps.OptionalTasksDependency(task_1=ps.VariableDurationTask(name="M", optional=o1), task_2=ps.ZeroDurationTask(name="Z", optional=o2)), not o2))
        cases.append((f"OptionalTaskForceSchedule/task_optional={o1},to_be_scheduled={o2}",
                      lambda o1=o1, o2=o2: ps.OptionalTaskForceSchedule(task=opt_task(o1), to_be_scheduled=o2), not o1))
    for mask in itertools.product((False, True), repeat=2):
        cases.append((f"ForceScheduleNOptionalTasks/optional_flags={mask}",
                      lambda mask=mask: ps.ForceScheduleNOptionalTasks(list_of_optional_tasks=[ps.FixedDurationTask(name=f"T{i}", duration=1, optional=o) for i, o in enumerate(mask)], nb_tasks_to_schedule=1),
                      not all(mask)))
        cases.append((f"ForceApplyNOptionalConstraints/optional_flags={mask}",
                      lambda mask=mask: ps.ForceApplyNOptionalConstraints(list_of_optional_constraints=[ps.TaskStartAt(task=ps.FixedDurationTask(name=f"T{i}", duration=1), value=i, optional=o) for i, o in enumerate(mask)], nb_constraints_to_apply=1),
                      not all(mask)))
    for mask in itertools.product((False, True), repeat=3):
        cases.append((f"ForceScheduleNOptionalTasks3/optional_flags={mask}",
                      lambda mask=mask: ps.ForceScheduleNOptionalTasks(list_of_optional_tasks=[ps.FixedDurationTask(name=f"T{i}", duration=1, optional=o) for i, o in enumerate(mask)], nb_tasks_to_schedule=2, kind="max"),
                      not all(mask)))
        cases.append((f"ForceApplyNOptionalConstraints3/optional_flags={mask}",
                      lambda mask=mask: ps.ForceApplyNOptionalConstraints(list_of_optional_constraints=[ps.TaskStartAt(task=ps.FixedDurationTask(name=f"T{i}", duration=1), value=i, optional=o) for i, o in enumerate(mask)], nb_constraints_to_apply=2),
                      not all(mask)))
    # resource constraints on an unassigned / assigned resource
    rc = {
        "WorkLoad": lambda w: ps.WorkLoad(resource=w, dict_time_intervals_and_bound={(0, 5): 2}),
        "ResourceUnavailable": lambda w: ps.ResourceUnavailable(resource=w, list_of_time_intervals=[(1, 2)]),
        "ResourcePeriodicallyUnavailable": lambda w: ps.ResourcePeriodicallyUnavailable(resource=w, list_of_time_intervals=[(1, 2)], period=5),
        "ResourceInterrupted": lambda w: ps.ResourceInterrupted(resource=w, list_of_time_intervals=[(1, 2)]),
        "ResourcePeriodicallyInterrupted": lambda w: ps.ResourcePeriodicallyInterrupted(resource=w, list_of_time_intervals=[(1, 2)], period=5),
        "ResourceNonDelay": lambda w: ps.ResourceNonDelay(resource=w),
        "ResourceTasksDistance": lambda w: ps.ResourceTasksDistance(resource=w, distance=1),
    }
    for cname, mk in rc.items():
        for kind in ("worker", "cumulative"):
            if kind == "cumulative" and cname in ("ResourceNonDelay", "ResourceTasksDistance"):
                continue  # declared for plain workers (they read the worker's own busy intervals)
            for assigned in (False, True):
                def thunk(mk=mk, kind=kind, assigned=assigned):
                    w = ps.Worker(name="W") if kind == "worker" else ps.CumulativeWorker(name="CW", size=2)
                    if assigned:
                        for i in range(2):
                            ps.FixedDurationTask(name=f"T{i}", duration=2).add_required_resource(w)
                    return mk(w)
                cases.append((f"{cname}/{kind}/assigned={assigned}", thunk, not assigned))
    # measurements and resource constraints on a resource with one, two or three tasks are well-formed
    ms = {
        "IndicatorResourceUtilization": (lambda w: ps.IndicatorResourceUtilization(resource=w), True),
        "IndicatorNumberTasksAssigned": (lambda w: ps.IndicatorNumberTasksAssigned(resource=w), True),
        "IndicatorResourceCost": (lambda w: ps.IndicatorResourceCost(list_of_resources=[w]), True),
        "IndicatorResourceIdle": (lambda w: ps.IndicatorResourceIdle(resource=w), False),
        "ObjectiveMinimizeFlowtimeSingleResource": (lambda w: ps.ObjectiveMinimizeFlowtimeSingleResource(resource=w), False),
        "ObjectiveMaximizeResourceUtilization": (lambda w: ps.ObjectiveMaximizeResourceUtilization(resource=w), True),
        "ObjectiveMinimizeResourceCost": (lambda w: ps.ObjectiveMinimizeResourceCost(list_of_resources=[w]), True),
    }
    ms.update({k: (v, k not in ("ResourceNonDelay", "ResourceTasksDistance")) for k, v in rc.items()})
    for cname, (mk, cumulative_too) in ms.items():
        for kind in ("worker", "cumulative") if cumulative_too else ("worker",):
            for ntasks, tkind in ((1, "fixed"), (1, "zero"), (3, "fixed"), (2, "optional")):
                def thunk(mk=mk, kind=kind, ntasks=ntasks, tkind=tkind):
                    w = ps.Worker(name="W") if kind == "worker" else ps.CumulativeWorker(name="CW", size=2)
                    for i in range(ntasks):
                        t = ps.ZeroDurationTask(name=f"T{i}") if tkind == "zero" else ps.FixedDurationTask(name=f"T{i}", duration=2, optional=(tkind == "optional"))
                        t.add_required_resource(w)
                    return mk(w)
                # documented rule of ResourceTasksDistance: "has to be assigned to at least 2 tasks"
                cases.append((f"{cname}/{kind}/{ntasks}_{tkind}_tasks", thunk, cname == "ResourceTasksDistance" and ntasks < 2))
    # elements created while no problem exists
    makers = {
        "FixedDurationTask": lambda: ps.FixedDurationTask(name="T", duration=1),
        "ZeroDurationTask": lambda: ps.ZeroDurationTask(name="T"),
        "VariableDurationTask": lambda: ps.VariableDurationTask(name="T"),
        "Worker": lambda: ps.Worker(name="W"),
        "CumulativeWorker": lambda: ps.CumulativeWorker(name="CW", size=2),
        "NonConcurrentBuffer": lambda: ps.NonConcurrentBuffer(name="B", initial_level=1),
        "ConcurrentBuffer": lambda: ps.ConcurrentBuffer(name="B", initial_level=1),
        "IndicatorFromMathExpression": lambda: ps.IndicatorFromMathExpression(name="i", expression=z3.Int("x")),
        "ConstraintFromExpression": lambda: ps.ConstraintFromExpression(expression=z3.Int("x") > 0),
        "ObjectiveMinimizeMakespan": lambda: ps.ObjectiveMinimizeMakespan(),
    }
    for cname, mk in makers.items():
        cases.append((f"no_problem/{cname}", ("NOPROBLEM", mk), True))
        cases.append((f"with_problem/{cname}", mk, False))
    # buffers need an initial or a final level
    cases.append(("Buffer/no_level", lambda: ps.NonConcurrentBuffer(name="B"), True))
    cases.append(("Buffer/final_only", lambda: ps.NonConcurrentBuffer(name="B", final_level=3), False))
    cases.append(("IndicatorBounds/no_bound", lambda: ps.IndicatorBounds(indicator=ps.IndicatorFromMathExpression(name="i", expression=z3.Int("x"))), True))
    cases.append(("IndicatorBounds/lower_zero", lambda: ps.IndicatorBounds(indicator=ps.IndicatorFromMathExpression(name="i", expression=z3.Int("x")), lower_bound=0), False))
    # the same resource required twice by one task
    def twice():
        t = ps.FixedDurationTask(name="T", duration=1)
        w = ps.Worker(name="W")
        t.add_required_resource(w)
        t.add_required_resource(w)
    cases.append(("Task/same_resource_twice", twice, True))
    # ... in every form: a worker has one busy interval per task (the library's own rule, enforced for the plain case above)
    def sel(lst):
        return ps.SelectWorkers(list_of_workers=lst, nb_workers_to_select=1)
    forms = {
        "direct_then_select": lambda t, w: (t.add_required_resource(w[0]), t.add_required_resource(sel([w[0], w[1]]))),
        "select_then_direct": lambda t, w: (t.add_required_resource(sel([w[0], w[1]])), t.add_required_resource(w[0])),
        "two_selections_sharing_a_worker": lambda t, w: (t.add_required_resource(sel([w[0], w[1]])), t.add_required_resource(sel([w[1], w[2]]))),
        "cumulative_twice": lambda t, w: (t.add_required_resource(w[3]), t.add_required_resource(w[3])),
    }
    ok_forms = {
        "two_disjoint_selections": lambda t, w: (t.add_required_resource(sel([w[0], w[1]])), t.add_required_resource(sel([w[2], ps.Worker(name="W9")]))),
        "cumulative_and_worker": lambda t, w: (t.add_required_resource(w[3]), t.add_required_resource(w[0])),
        "same_worker_two_tasks": lambda t, w: (t.add_required_resource(w[0]), ps.FixedDurationTask(name="T2", duration=1).add_required_resource(w[0])),
        "list_of_resources": lambda t, w: t.add_required_resources([w[0], w[1], w[3]]),
    }
    for fname, f in list(forms.items()) + list(ok_forms.items()):
        def thunk(f=f):
            t = ps.FixedDurationTask(name="T", duration=1)
            w = [ps.Worker(name=f"W{i}") for i in range(3)] + [ps.CumulativeWorker(name="CW", size=2)]
            f(t, w)
        cases.append((f"Task/worker_required_twice/{fname}", thunk, fname in forms))
    cases.append(("Task/non_resource_required", lambda: ps.FixedDurationTask(name="T", duration=1).add_required_resource("W"), True))
    return cases


def _registry_cases():
    """three insertions into each name registry, every equality pattern of the three names; an element of
    another kind with the same name is always accepted"""
    kinds = {
        "task": lambda n: ps.FixedDurationTask(name=n, duration=1),
        "zero_task": lambda n: ps.ZeroDurationTask(name=n),
        "worker": lambda n: ps.Worker(name=n),
        "cumulative_worker": lambda n: ps.CumulativeWorker(name=n, size=2),
        "select_workers": lambda n: ps.SelectWorkers(name=n, list_of_workers=[ps.Worker(name=f"{n}_w{psbase.active_problem._c18}a"), ps.Worker(name=f"{n}_w{psbase.active_problem._c18}b")]),
        "constraint": lambda n: ps.ConstraintFromExpression(name=n, expression=z3.Int("x") > len(psbase.active_problem.constraints)),
        "indicator": lambda n: ps.IndicatorFromMathExpression(name=n, expression=z3.Int("x")),
        "buffer": lambda n: ps.NonConcurrentBuffer(name=n, initial_level=1),
    }
    patterns = [("a", "b", "c"), ("a", "a", "b"), ("a", "b", "a"), ("a", "b", "b"), ("a", "a", "a"), ("a", "A", "a "), ("n1", "n11", "n1")]
    cases = []
    for kname, mk in kinds.items():
        for pat in patterns:
            def thunk(mk=mk, pat=pat, kname=kname):
                outcome = []
                for i, n in enumerate(pat):
                    psbase.active_problem._c18 = i
                    try:
                        mk(n)
                        outcome.append(True)
                    except ValueError:
                        outcome.append(False)
                # other kinds may reuse the names
                if kname != "worker":
                    ps.Worker(name=pat[0])
                else:
                    ps.FixedDurationTask(name=pat[0], duration=1)
                return outcome
            expect = [n not in pat[:i] for i, n in enumerate(pat)]
            cases.append((f"registry/{kname}/{'|'.join(pat)}", thunk, expect))
    return cases


# ---- (D) acceptance sweep: every public element class with its required arguments only, then with each optional
# argument given one well-formed value -------------------------------------------------------------------------
def _env():
    """a small problem holding one well-formed value for every kind of argument"""
    e = {}
    e["t1"], e["t2"], e["t3"] = (ps.FixedDurationTask(name=f"S{i}", duration=2, due_date=8 + i) for i in range(3))
    e["o1"], e["o2"] = (ps.FixedDurationTask(name=f"SO{i}", duration=1, optional=True, due_date=9) for i in range(2))
    e["w"] = ps.Worker(name="SW")
    e["w2"] = ps.Worker(name="SW2")
    e["t1"].add_required_resource(e["w"])
    e["t2"].add_required_resource(e["w"])
    e["sel1"] = ps.SelectWorkers(list_of_workers=[e["w"], e["w2"]], nb_workers_to_select=1)
    e["sel2"] = ps.SelectWorkers(list_of_workers=[e["w"], e["w2"]], nb_workers_to_select=1)
    e["t3"].add_required_resource(e["sel1"])
    e["o1"].add_required_resource(e["sel2"])
    e["buf"] = ps.NonConcurrentBuffer(name="SB", initial_level=5)
    ps.TaskUnloadBuffer(task=e["t1"], buffer=e["buf"], quantity=1)
    e["ind"] = ps.IndicatorFromMathExpression(name="SI", expression=e["t1"]._start + 1)
    e["oc1"] = ps.TaskStartAt(task=e["t1"], value=1, optional=True)
    e["oc2"] = ps.TaskStartAt(task=e["t2"], value=4, optional=True)
    return e


def _fresh_constraint(e, k):
    return ps.TaskStartAfter(task=e["t3"], value=k)


REQUIRED = {
    "task": lambda e: e["t1"], "task_1": lambda e: e["t1"], "task_2": lambda e: e["t2"], "task_before": lambda e: e["t1"], "task_after": lambda e: e["t2"],
    "list_of_tasks": lambda e: [e["t1"], e["t2"], e["t3"]], "list_of_optional_tasks": lambda e: [e["o1"], e["o2"]],
    "list_of_optional_constraints": lambda e: [e["oc1"], e["oc2"]],
    "resource": lambda e: e["w"], "list_of_resources": lambda e: [e["w"], e["w2"]], "buffer": lambda e: e["buf"],
    "select_workers_1": lambda e: e["sel1"], "select_workers_2": lambda e: e["sel2"], "list_of_workers": lambda e: [e["w"], e["w2"]],
    "list_of_time_intervals": lambda e: [(1, 3)], "period": lambda e: 5, "distance": lambda e: 1, "dict_time_intervals_and_bound": lambda e: {(0, 5): 2},
    "value": lambda e: 3, "quantity": lambda e: 1, "nb_tasks_to_schedule": lambda e: 1, "condition": lambda e: e["t1"]._start > 2, "to_be_scheduled": lambda e: True,
    "constraint": lambda e: _fresh_constraint(e, 1), "constraint_1": lambda e: _fresh_constraint(e, 1), "constraint_2": lambda e: _fresh_constraint(e, 2),
    "list_of_constraints": lambda e: [_fresh_constraint(e, 1), _fresh_constraint(e, 2)],
    "then_list_of_constraints": lambda e: [_fresh_constraint(e, 3)], "else_list_of_constraints": lambda e: [_fresh_constraint(e, 4)],
    "expression": lambda e: e["t1"]._start >= 0, "indicator": lambda e: e["ind"], "target": lambda e: e["ind"],
    "coefficients": lambda e: [1, 0, 2], "slope": lambda e: 1, "intercept": lambda e: 2, "function": lambda e: (lambda x: 2 * x), "size": lambda e: 2, "duration": lambda e: 2,
}
OPTIONAL = {
    "optional": [True], "kind": None, "mode": None, "offset": [1], "start": [1], "end": [20], "time_interval": [(0, 10)], "time_interval_length": [8],
    "nb_constraints_to_apply": [1], "nb_tasks_to_schedule": [1], "lower_bound": [0], "upper_bound": [50], "bounds": [(0, 10)], "work_amount": [1], "release_date": [1],
    "due_date": [9], "due_date_is_deadline": [False, True], "priority": [2], "min_duration": [1], "max_duration": [4], "allowed_durations": [[1, 2]], "productivity": [2],
    "cost": [lambda e: ps.ConstantFunction(value=3), lambda e: ps.LinearFunction(slope=1, intercept=1)], "weight": [2], "list_of_tasks": [lambda e: [e["t1"], e["t2"]]],
    "initial_level": [4], "final_level": [3], "nb_workers_to_select": [1], "list_of_time_intervals": [[(1, 3)]], "expression": [lambda e: e["t1"]._start + 2],
}
# what each objective constructor needs beyond its declared model (they take their arguments from **data)
OBJECTIVE_ARGS = {
    "ObjectiveMaximizeIndicator": ["target"], "ObjectiveMinimizeIndicator": ["target"], "ObjectiveMaximizeResourceUtilization": ["resource"],
    "ObjectiveMinimizeResourceCost": ["list_of_resources"], "ObjectiveMinimizeFlowtimeSingleResource": ["resource"],
    "ObjectiveMaximizeMaxBufferLevel": ["buffer"], "ObjectiveMinimizeMaxBufferLevel": ["buffer"],
}
SWEEP_SKIP = {"Constraint", "TaskConstraint", "ResourceConstraint", "IndicatorConstraint", "Indicator", "Objective", "NamedUIDObject", "TaskGroup",
              "SchedulingProblem", "SchedulingSolver", "Function"}
# optional arguments whose combination with the minimal call is ill-formed by a documented rule
SWEEP_ILL = {("ForceApplyNOptionalConstraints", "optional"), ("ForceScheduleNOptionalTasks", "optional"),
             ("NonConcurrentBuffer", None), ("ConcurrentBuffer", None)}  # a buffer needs an initial or a final level
# explicit limitation of the library (asserted in resource.py): only a constant cost can be spread over the
# elementary workers of a cumulative worker
SWEEP_LIMIT = {("CumulativeWorker", "cost", 1)}


def _literal_values(cls, field):
    import typing
    ann = cls.model_fields[field].annotation
    return list(typing.get_args(ann)) if typing.get_origin(ann) is typing.Literal else []


def _sweep_cases():
    import inspect
    from processscheduler.base import BaseModelWithJson
    cases = []
    for cname in sorted(dir(ps)):
        cls = getattr(ps, cname)
        if not (inspect.isclass(cls) and issubclass(cls, BaseModelWithJson)) or cname in SWEEP_SKIP:
            continue
        is_obj = cname.startswith("Objective")
        req = OBJECTIVE_ARGS.get(cname, []) if is_obj else [f for f, fi in cls.model_fields.items() if fi.is_required()]
        opt = [] if is_obj and cname not in ("ObjectiveMaximizeIndicator", "ObjectiveMinimizeIndicator") else \
            [f for f, fi in cls.model_fields.items() if not fi.is_required() and f in OPTIONAL and f not in req]
        if is_obj:
            opt = [f for f in opt if f == "weight"]
        variants = [(None, None)]
        for f in opt:
            vals = OPTIONAL[f] if OPTIONAL[f] is not None else _literal_values(cls, f)
            variants += [(f, v) for v in vals]
        for f, v in variants:
            if (cname, f) in SWEEP_ILL:
                continue
            if f is not None and OPTIONAL.get(f) and v in OPTIONAL[f] and (cname, f, OPTIONAL[f].index(v)) in SWEEP_LIMIT:
                continue

            def thunk(cls=cls, cname=cname, req=req, f=f, v=v):
                e = _env()
                kw = {r: REQUIRED[r](e) for r in req}
                if cname.startswith("OptionalTask"):  # documented rule: these bear on optional tasks
                    kw.update({k: e["o1"] for k in ("task", "task_2") if k in kw})
                if cname == "IndicatorBounds" and f not in ("lower_bound", "upper_bound"):
                    kw["lower_bound"] = 0  # documented rule: at least one bound
                if "name" in cls.model_fields and cname not in OBJECTIVE_ARGS and not cname.startswith("Objective"):
                    kw["name"] = "swept"
                if cname in ("NonConcurrentBuffer", "ConcurrentBuffer") and f not in ("initial_level", "final_level"):
                    kw["initial_level"] = 2
                if f is not None:
                    kw[f] = v(e) if callable(v) else v
                if cname == "VariableDurationTask" and f == "min_duration":
                    kw["max_duration"] = 6
                return cls(**kw)
            tag = "required_only" if f is None else f"{f}={v if not callable(v) else getattr(v, '__name__', 'value')}"
            cases.append((f"sweep/{cname}/{tag}", thunk, False))
    # disambiguate identical tags (two callables for one field)
    seen, out = {}, []
    for cid, th, exp in cases:
        seen[cid] = seen.get(cid, 0) + 1
        out.append((cid if seen[cid] == 1 else f"{cid}#{seen[cid]}", th, exp))
    return out


def rule_ob(cid, thunk, must_raise):
    def fn(ctx, path):
        raised, err = run_case(thunk)
        if raised != must_raise:
            return {"status": "sat", "queries": 1, "witness": {"params": {}, "pins": {}, "what": f"{cid}: {'raised ' + str(err) if raised else 'silently accepted'}, expected {'an error' if must_raise else 'acceptance'}"}}
        return {"status": "unsat", "queries": 1}

    return Ob(f"{PROP}/rule/{cid}", "custom", fn=fn, replayer="checks.c18:replay_rule", extra={"case": cid})


def run_case(thunk):
    with quiet():
        if isinstance(thunk, tuple):
            psbase.active_problem = None
            thunk = thunk[1]
        else:
            _pb()
        try:
            thunk()
            return False, None
        except Exception as e:
            return True, f"{type(e).__name__}: {str(e)[:80]}"
        finally:
            pass


def registry_ob(cid, thunk, expect):
    def fn(ctx, path):
        with quiet():
            _pb()
            try:
                got = thunk()
            except Exception as e:
                got = f"{type(e).__name__}: {e}"
        if got != expect:
            return {"status": "sat", "queries": 1, "witness": {"params": {}, "pins": {}, "what": f"{cid}: acceptance pattern {got}, expected {expect}"}}
        return {"status": "unsat", "queries": 1}

    return Ob(f"{PROP}/{cid}", "custom", fn=fn, replayer="checks.c18:replay_rule", extra={"case": cid})


def replay_rule(desc):
    cid = desc["extra"]["case"]
    for c, thunk, exp in _rule_cases() + _sweep_cases():
        if c == cid:
            raised, err = run_case(thunk)
            print(f"replay: {cid}: raised={raised} ({err}); expected raise={exp}")
            if raised != exp:
                print(f"CONFIRMED: {cid}: {'error' if raised else 'silently accepted'}, expected the opposite")
                return 1
            return 0
    for c, thunk, exp in _registry_cases():
        if c == cid:
            with quiet():
                _pb()
                try:
                    got = thunk()
                except Exception as e:
                    got = f"{type(e).__name__}: {e}"
            print(f"replay: {cid}: {got}; expected {exp}")
            if got != exp:
                print(f"CONFIRMED: {cid}: duplicate-name handling differs")
                return 1
            return 0
    return 2


def shapes(tier):
    def build(P):
        return Ctx(problem=None)

    groups = {
        "regions": [region_ob(p) for p in INT_PARAMS],
        "grid": [grid_ob(p, INT_PARAMS) for p in INT_PARAMS] + [grid_ob(p, GRID_ONLY) for p in GRID_ONLY],
        "rules": [rule_ob(*c) for c in _rule_cases()],
        "sweep": [rule_ob(*c) for c in _sweep_cases()],
        "registries": [registry_ob(*c) for c in _registry_cases()],
    }
    out = []
    for g, obs in groups.items():
        # a few obligations per shape so that the work spreads over the cores
        for i in range(0, len(obs), 8):
            sh = Shape(f"{g}/{i // 8}", build, (lambda ctx, chunk=obs[i:i + 8]: chunk), initialize=False)
            sh.grid = False
            out.append(sh)
    return out


def main(tier):
    return run_property(
        PROP, "checks.c18", tier, "translation_validation",
        assumptions=[
            "regions: Accept_real = declared field constraints (read from cls.model_fields at run time) AND non-raising paths of the symbolically executed constructor body; compared with the well-formed region of the property over ALL integers (unbounded)",
            "pydantic-core enforces the declared constraints as documented: tied to the real behaviour by the boundary grid [-3, -1, 0, 1, 2, 3, 4, 7, 1000] run on the unpatched constructors",
            "parameters that reach range()/z3.Pb* in the constructor body (cumulative size, list lengths) are grid-only",
            "class-level rules and name registries are finite facts: executed on both sides of each rule; registries over all equality patterns of three names plus near-miss names (case, trailing space, prefix)",
            "'an error' = any exception raised at creation",
        ])
