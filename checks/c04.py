"""C04 - every declared resource constraint holds in every admitted schedule/selection (Q-sound).
Periodic constraints are checked for a symbolic period index k (free in the query => all periods)."""
import itertools

import z3

import processscheduler as ps

from symx.formula import And, Or, Not, Implies, Sum, b2i
from symx.harness import Shape, Ob, Ctx, run_property
from checks.common import make_task, new_problem
from checks.relements import RELEMENTS, setup_resource

PROP = "C04"


def _tasks(P, kinds, optmask):
    out = []
    for i, k in enumerate(kinds):
        if k == "var":
            out.append(make_task(P, "ABCDEFG"[i], "var", optional=optmask[i], vmin=True, vmax=True))
        elif k == "varfree":
            t = make_task(P, "ABCDEFG"[i], "var", optional=optmask[i], vmin=True)
            out.append(t)
        else:
            out.append(make_task(P, "ABCDEFG"[i], k, optional=optmask[i]))
    return out


def make_shape(prop, ename, variant, how, kinds, optmask, copt=False):
    el = RELEMENTS[ename]
    vtag = ",".join(f"{k}={v}" for k, v in sorted(variant.items())) or "-"
    name = f"{ename}/{vtag}/{how}/{'+'.join(kinds)}/opt{''.join(str(int(b)) for b in optmask)}/{'optc' if copt else 'mandc'}"

    def build(P):
        pb, hv = new_problem(P, False)
        tis = _tasks(P, kinds, optmask)
        res, busy, named = setup_resource(P, tis, how)
        c = el.build(P, res, optional=copt, **variant)
        named["applied"] = c._applied
        return Ctx(problem=pb, tis=tis, res=res, busy=busy, cst=c, named=named)

    def obligations(ctx):
        guard = []
        if copt:
            guard.append(ctx.cst._applied)
        if getattr(el, "order_based", False):
            # order-based rules: stated for assigned busy intervals of positive length (Appendix A)
            guard += [And(bs >= 0, be > bs) for _, (bs, be) in ctx.busy]
        return [Ob(f"{prop}/{name}/{cn}", "sound", clause=cl, guard=And(guard))
                for cn, cl in el.must(ctx.P, ctx.busy, ctx.tis, **variant)]

    sh = Shape(name, build, obligations)
    sh.assumptions = lambda P: el.assume(P, **variant)
    return sh


def pair_shape(first, second, first_mode):
    """Two resource constraints on the same worker: `first` is declared optional (and may be left
    unapplied) or is only the operand of a Not; `second` is mandatory and must hold whatever happens to
    the first one (shared caches / shared auxiliaries between constraints of one resource)."""
    e1, v1 = first
    e2, v2 = second
    name = f"pair/{e1}_{first_mode}+{e2}/" + ",".join(f"{k}={v}" for k, v in sorted(v2.items()))

    def build(P):
        pb, hv = new_problem(P, False)
        tis = _tasks(P, ("fixed", "var", "fixed"), (False, False, False))
        res, busy, named = setup_resource(P, tis, "worker")
        # the two constraints use differently named parameters
        P1 = _Prefixed(P, "f_")
        c1 = RELEMENTS[e1].build(P1, res, optional=(first_mode == "optional"), **v1)
        # the element builders name their constraint "rc": re-key the first one in the problem's registry
        pb.constraints["rc_first"] = pb.constraints.pop("rc")
        c1.name = "rc_first"
        if first_mode == "negated":
            ps.Not(name="not_first", constraint=c1)
        c2 = RELEMENTS[e2].build(P, res, **v2)
        named["applied_first"] = c1._applied
        return Ctx(problem=pb, tis=tis, res=res, busy=busy, c1=c1, c2=c2, named=named)

    def obligations(ctx):
        guard = []
        if getattr(RELEMENTS[e2], "order_based", False):
            guard += [And(bs >= 0, be > bs) for _, (bs, be) in ctx.busy]
        obs = [Ob(f"{PROP}/{name}/{cn}", "sound", clause=cl, guard=And(guard)) for cn, cl in RELEMENTS[e2].must(ctx.P, ctx.busy, ctx.tis, **v2)]
        if first_mode == "optional":
            obs += [Ob(f"{PROP}/{name}/first_unapplied/{cn}", "sound", clause=cl, guard=And(guard + [Not(ctx.c1._applied)]))
                    for cn, cl in RELEMENTS[e2].must(ctx.P, ctx.busy, ctx.tis, **v2)]
        return obs

    sh = Shape(name, build, obligations)
    sh.assumptions = lambda P: RELEMENTS[e2].assume(P, **v2)
    return sh


def zero_length_order_shape(rule, kinds):
    """order-based rules of a plain worker with zero-length tasks: the worker's own no-overlap rule makes the busy
    intervals chainable, so the rule has an undisputed meaning there too - some order in which each interval ends no
    later than the next one starts, every consecutive gap in the rule's relation"""
    from checks import c05
    name = f"zero_length_tasks/{rule}/{'+'.join(kinds)}"
    mk, rel = c05.TIE_RULES[rule]

    def build(P):
        pb, hv = new_problem(P, False)
        tis = _tasks(P, kinds, tuple([False] * len(kinds)))
        w = ps.Worker(name="W")
        for t in tis:
            t.obj.add_required_resource(w)
        mk(P, w)
        return Ctx(problem=pb, tis=tis, w=w)

    def obligations(ctx):
        ivs = [ctx.w._busy_intervals[t.obj] for t in ctx.tis]
        return [Ob(f"{PROP}/{name}/consecutive_gaps_in_the_relation", "sound", clause=c05.chain(ivs, rel(ctx.P)))]

    return Shape(name, build, obligations)


def history_shape(ename, variant, how):
    """assignments and declarations interleaved on one resource: task A is assigned, a first constraint is declared,
    task B is assigned, a second constraint of the same class is declared (other parameters), task C is assigned.
    The first constraint binds A, the second binds A and B (a constraint covers the tasks assigned before it)."""
    el = RELEMENTS[ename]
    name = f"interleaved/{ename}/" + (",".join(f"{k}={v}" for k, v in sorted(variant.items())) or "-") + f"/{how}"

    def build(P):
        pb, hv = new_problem(P, False)
        tis = _tasks(P, ("fixed", "fixed", "fixed"), (False, False, False))
        res = ps.Worker(name="W") if how == "worker" else ps.CumulativeWorker(name="CW", size=2)
        units = [res] if how == "worker" else list(res._cumulative_workers)

        def busy_of(ts):
            return [(t, u._busy_intervals[t.obj]) for u in units for t in ts if t.obj in u._busy_intervals]

        tis[0].obj.add_required_resource(res)
        c1 = el.build(_Prefixed(P, "f_"), res, **variant)
        pb.constraints["rc_first"] = pb.constraints.pop("rc")
        c1.name = "rc_first"
        busy1 = busy_of(tis[:1])
        tis[1].obj.add_required_resource(res)
        c2 = el.build(P, res, **variant)
        busy2 = busy_of(tis[:2])
        tis[2].obj.add_required_resource(res)
        return Ctx(problem=pb, tis=tis, busy1=busy1, busy2=busy2)

    def obligations(ctx):
        obs = [Ob(f"{PROP}/{name}/first_{cn}", "sound", clause=cl) for cn, cl in el.must(_Prefixed(ctx.P, "f_"), ctx.busy1, ctx.tis[:1], **variant)]
        obs += [Ob(f"{PROP}/{name}/second_{cn}", "sound", clause=cl) for cn, cl in el.must(ctx.P, ctx.busy2, ctx.tis[:2], **variant)]
        return obs

    sh = Shape(name, build, obligations)
    sh.assumptions = lambda P: list(el.assume(_Prefixed(P, "f_"), **variant)) + list(el.assume(P, **variant))
    return sh


class _Prefixed:
    """Params view that prefixes every parameter name (two constraints of one shape)."""

    def __init__(self, P, prefix):
        self._P, self._prefix = P, prefix

    def int(self, name, **kw):
        return self._P.int(self._prefix + name, **kw)

    def term(self, name, **kw):
        return self._P.term(self._prefix + name, **kw)

    def v(self, name):
        return self._P.v(self._prefix + name)

    def __getattr__(self, a):
        return getattr(self._P, a)


def shape_workers_rel(cls, nworkers, common):
    """SameWorkers / DistinctWorkers over two selections sharing `common` workers."""
    name = f"{cls}/{nworkers}w/common{common}"

    def build(P):
        pb, hv = new_problem(P, False)
        a = make_task(P, "A", "fixed")
        b = make_task(P, "B", "fixed")
        ws = [ps.Worker(name=f"W{i + 1}") for i in range(nworkers)]
        extra = [ps.Worker(name=f"X{i + 1}") for i in range(2)]
        l1 = ws[:common] + extra[:1] if common < nworkers or True else ws
        l1 = ws[:]
        l2 = ws[:common] + ([extra[0], extra[1]] if common < 2 else [extra[0]])
        s1 = ps.SelectWorkers(list_of_workers=l1, nb_workers_to_select=1, kind="min")
        s2 = ps.SelectWorkers(list_of_workers=l2, nb_workers_to_select=1, kind="min")
        a.obj.add_required_resource(s1)
        b.obj.add_required_resource(s2)
        c = getattr(ps, cls)(name="rc", select_workers_1=s1, select_workers_2=s2)
        named = {}
        for w in l1:
            named[f"s1_{w.name}"] = s1._selection_dict[w]
        for w in l2:
            named[f"s2_{w.name}"] = s2._selection_dict[w]
        return Ctx(problem=pb, s1=s1, s2=s2, commonw=ws[:common], named=named)

    def obligations(ctx):
        obs = []
        for w in ctx.commonw:
            x, y = ctx.s1._selection_dict[w], ctx.s2._selection_dict[w]
            if cls == "SameWorkers":
                obs.append(Ob(f"{PROP}/{name}/same_{w.name}", "sound", clause=x == y))
            else:
                obs.append(Ob(f"{PROP}/{name}/not_both_{w.name}", "sound", clause=Not(And(x, y))))
        return obs

    return Shape(name, build, obligations)


def shapes(tier):
    from checks import c03 as _c03
    out = _c03.monotone_shapes(PROP, tier, resource_rules=True) + _c03.default_shapes(PROP)
    thorough = tier == "thorough"
    for rule in ("ResourceNonDelay", "ResourceTasksDistance_exact", "ResourceTasksDistance_min", "ResourceTasksDistance_max"):
        for kinds in [("zero", "fixed"), ("fixed", "zero", "var")] + ([("zero", "zero", "fixed"), ("var", "var")] if thorough else []):
            out.append(zero_length_order_shape(rule, kinds))
    for ename in ("ResourceUnavailable", "WorkLoad", "ResourcePeriodicallyUnavailable", "ResourceInterrupted"):
        for how in ("worker", "cumulative"):
            for variant in (RELEMENTS[ename].variants[:1] if not thorough else RELEMENTS[ename].variants[:3]):
                out.append(history_shape(ename, variant, how))
    for ename, el in RELEMENTS.items():
        for vi, variant in enumerate(el.variants):
            for hi_, how in enumerate(el.setups):
                if el.min_tasks >= 2:
                    klist = [("fixed", "fixed"), ("fixed", "var", "fixed")]
                    if thorough:
                        klist.append(("var", "fixed", "fixed", "var"))
                elif "Interrupted" in ename:
                    klist = [("fixed",), ("var",), ("fixed", "var")]
                    if thorough:
                        klist.append(("varfree", "fixed"))
                else:
                    klist = [("fixed",), ("fixed", "var")]
                    if thorough:
                        klist.append(("var", "fixed", "zero"))
                if not thorough and len(el.variants) > 3 and how != "worker":
                    klist = klist[:1] if (vi + hi_) % 2 else klist[1:2]
                for kinds in klist:
                    masks = [tuple([False] * len(kinds))]
                    if thorough or how == "worker":
                        masks.append(tuple([True] + [False] * (len(kinds) - 1)))
                    for m in masks:
                        out.append(make_shape(PROP, ename, variant, how, kinds, m))
                    if thorough or (vi == 0 and how == "worker"):
                        out.append(make_shape(PROP, ename, variant, how, kinds, masks[0], copt=True))
    for cls in ("SameWorkers", "DistinctWorkers"):
        for nw, common in ((2, 2), (3, 2), (3, 1)) + (((4, 3),) if thorough else ()):
            out.append(shape_workers_rel(cls, nw, common))
    # pairs of constraints on one worker
    firsts = [("ResourceNonDelay", {}), ("ResourceTasksDistance", dict(mode="min", nints=0)), ("ResourceUnavailable", dict(nints=1)),
              ("WorkLoad", dict(kind="max", nints=1))]
    seconds = [("ResourceTasksDistance", dict(mode="min", nints=0)), ("ResourceTasksDistance", dict(mode="exact", nints=0)), ("ResourceNonDelay", {}),
               ("ResourceUnavailable", dict(nints=1)), ("WorkLoad", dict(kind="max", nints=1)), ("WorkLoad", dict(kind="min", nints=1))]
    for f in firsts:
        for sd in seconds:
            for mode in ("optional", "negated"):
                if not thorough and mode == "negated" and f[0] not in ("ResourceNonDelay", "ResourceTasksDistance"):
                    continue
                if f[0] == sd[0] == "ResourceNonDelay":
                    continue
                out.append(pair_shape(f, sd, mode))
    return out


def main(tier):
    return run_property(
        PROP, "checks.c04", tier, "translation_validation",
        assumptions=[
            "class-generic monotonicity for the 9 resource rules as in C03; nested and overlapping interval lists are admitted input for unavailability and workload (only identical entries are excluded: rejected at creation); net duration of interruptible tasks under a periodic interruption inside dates 0..14, no activity window",
            "listed intervals are well-formed (lo < hi, lo >= 0); in-period intervals lie inside [0, period]",
            "period is concrete (3, 5, 6) so that modulo stays linear; offset, start, end, bounds, distances symbolic and unbounded",
            "periodic rules are stated for a symbolic period index k over all integers (free variable of the validity query)",
            "order-based rules (distance, non-delay) are stated for assigned busy intervals of positive length",
            "ResourcePeriodicallyInterrupted: the net-duration accounting of variable tasks across an unbounded number of periods is outside the claim (start/end placement is checked)",
            "shape bounds: <= 3 (thorough 4) tasks on the resource, interval lists of length <= 2, cumulative size 2",
        ])
