"""C06 - optional tasks: scheduled like mandatory ones, or inert when not scheduled.
 (a) scheduled  => every rule a mandatory task obeys (C01 clauses re-proved under the scheduled guard,
     C02-C04 already carry the optional masks);
 (b) unscheduled => no reported assignment, no buffer change, no indicator contribution;
 (c) deletion equivalence: the problem P restricted to "t not scheduled" admits exactly the
     schedules of the same problem built without t (two quantified halves, both builds made by the
     real API in the same symbolic run);
 (d) force / condition / dependency / count rules are honoured, soundly and completely."""
import itertools

import z3

import processscheduler as ps

from symx import formula
from symx.formula import And, Or, Not, Implies, Sum, b2i, to_z3
from symx.harness import Shape, Ob, Ctx, run_property, quiet
from checks.common import make_task, new_problem, task_must, task_valid
from checks.c09 import declare_buffer
from checks.common import buffer_witness

PROP = "C06"
KINDS = {"zero": dict(kind="zero"), "fixed": dict(kind="fixed"), "var": dict(kind="var", vmin=True, vmax=True),
         "var_allowed": dict(kind="var", allowed=2), "var_all": dict(kind="var", vmin=True, vmax=True, allowed=3), "var_free": dict(kind="var")}
BASIC_KINDS = ("zero", "fixed", "var")


# ---- contexts for (b)/(c): how the optional task T is embedded --------------------------------
def ctx_plain(P, t, o):
    pass


def ctx_release_due(P, t, o):
    pass  # T itself carries release/due (see make below)


def ctx_worker(P, t, o):
    w = ps.Worker(name="W")
    if t is not None:
        t.obj.add_required_resource(w)
    o.obj.add_required_resource(w)
    return {"workers": [w]}


def ctx_work_amount(P, t, o):
    w = ps.Worker(name="W", productivity=2)
    if t is not None:
        t.obj.add_required_resource(w)
    o.obj.add_required_resource(w)
    return {"workers": [w]}


def ctx_select(P, t, o):
    w1, w2 = ps.Worker(name="W1"), ps.Worker(name="W2")
    if t is not None:
        t.obj.add_required_resource(ps.SelectWorkers(list_of_workers=[w1, w2], nb_workers_to_select=1))
    o.obj.add_required_resource(w1)
    return {"workers": [w1, w2]}


def ctx_cumulative(P, t, o):
    cw = ps.CumulativeWorker(name="CW", size=2)
    if t is not None:
        t.obj.add_required_resource(cw)
    o.obj.add_required_resource(cw)
    return {"workers": list(cw._cumulative_workers)}


def _buffer(conc):
    def f(P, t, o):
        cls = ps.ConcurrentBuffer if conc else ps.NonConcurrentBuffer
        b = cls(name="B", initial_level=P.int("B_init", ph=10), lower_bound=0)
        if t is not None:
            ps.TaskUnloadBuffer(task=t.obj, buffer=b, quantity=P.int("B_qt", ph=2))
        ps.TaskLoadBuffer(task=o.obj, buffer=b, quantity=P.int("B_qo", ph=3))
        return {"buffer": b}
    return f


def ctx_indicators(P, t, o):
    inds = [ps.IndicatorTardiness(), ps.IndicatorEarliness(), ps.IndicatorNumberOfTardyTasks()]
    objs = [ps.ObjectiveMinimizeFlowtime(), ps.ObjectivePriorities(), ps.ObjectiveTasksStartEarliest()]
    return {"indicators": inds, "objectives": objs}


def ctx_worker_indicators(P, t, o):
    w = ps.Worker(name="W", cost=ps.ConstantFunction(value=3))
    if t is not None:
        t.obj.add_required_resource(w)
    o.obj.add_required_resource(w)
    inds = [ps.IndicatorResourceUtilization(resource=w), ps.IndicatorNumberTasksAssigned(resource=w),
            ps.IndicatorResourceCost(list_of_resources=[w])]
    return {"workers": [w], "indicators": inds}


def _constraint(maker, keep_without_t=False, member_last=False):
    """two-task constraints vanish with T; list-valued ones keep binding the remaining task
    (member_last: the optional task is the *last* element of the list, after the mandatory one)"""
    def f(P, t, o):
        if t is not None:
            maker(P, [o.obj, t.obj] if member_last else [t.obj, o.obj], t, o)
        elif keep_without_t:
            maker(P, [o.obj], None, o)
    return f


def _resource_rule(maker):
    """T, O and a third task O2 share worker W; a resource constraint is declared on W"""
    def f(P, t, o):
        w = ps.Worker(name="W")
        o2 = make_task(P, "O2", "fixed")
        for x in (t, o, o2):
            if x is not None:
                x.obj.add_required_resource(w)
        maker(P, w)
        return {"workers": [w]}
    return f


def _group_in_precedence(kind, side):
    """T and O form a task group that has no window; a third task O2 precedes (or follows) the group"""
    def f(P, t, o):
        o2 = make_task(P, "O2", "fixed")
        members = [x.obj for x in (t, o) if x is not None]
        cls = ps.UnorderedTaskGroup if kind == "unordered" else ps.OrderedTaskGroup
        g = cls(name="grp", list_of_tasks=members)
        if side == "after":
            ps.TaskPrecedence(name="before_group", task_before=o2.obj, task_after=g, offset=P.int("c_off", ph=1))
        else:
            ps.TaskPrecedence(name="after_group", task_before=g, task_after=o2.obj, offset=P.int("c_off", ph=1))
    return f


CONTEXTS = {
    "tasks_distance_exact": _resource_rule(lambda P, w: ps.ResourceTasksDistance(resource=w, distance=P.int("r_dist", ph=2), mode="exact")),
    "tasks_distance_min": _resource_rule(lambda P, w: ps.ResourceTasksDistance(resource=w, distance=P.int("r_dist", ph=2), mode="min")),
    "non_delay": _resource_rule(lambda P, w: ps.ResourceNonDelay(resource=w)),
    "unavailable": _resource_rule(lambda P, w: ps.ResourceUnavailable(resource=w, list_of_time_intervals=[(P.int("r_lo", ph=3), P.int("r_hi", ph=5))])),
    "workload": _resource_rule(lambda P, w: ps.WorkLoad(resource=w, dict_time_intervals_and_bound={(P.int("r_lo", ph=0), P.int("r_hi", ph=9)): P.int("r_b", ph=4)}, kind="max")),
    "periodic_unavailable": _resource_rule(lambda P, w: ps.ResourcePeriodicallyUnavailable(resource=w, period=6, offset=P.int("r_off", ph=0), list_of_time_intervals=[(P.int("r_lo", ph=2), P.int("r_hi", ph=4, hi=6))])),
    "periodic_interrupted": _resource_rule(lambda P, w: ps.ResourcePeriodicallyInterrupted(resource=w, period=5, offset=P.int("r_off", ph=0), list_of_time_intervals=[(1, 3)])),
    "objective_start_latest": lambda P, t, o: {"objectives": [ps.ObjectiveTasksStartLatest()]},
    "objective_greatest_start": lambda P, t, o: {"objectives": [ps.ObjectiveMinimizeGreatestStartTime()]},
    "objective_makespan_flowtime": lambda P, t, o: {"objectives": [ps.ObjectiveMinimizeMakespan(), ps.ObjectiveMinimizeFlowtime()]},
    "indicator_max_lateness": lambda P, t, o: {"indicators": [ps.IndicatorMaximumLateness()]},
    "indicator_resource_idle": _resource_rule(lambda P, w: ps.IndicatorResourceIdle(resource=w)),
    "objective_flowtime_single_resource": _resource_rule(lambda P, w: ps.ObjectiveMinimizeFlowtimeSingleResource(resource=w)),
    "windowless_group_after_a_task": _group_in_precedence("unordered", "after"),
    "windowless_group_before_a_task": _group_in_precedence("unordered", "before"),
    "windowless_ordered_group_after_a_task": _group_in_precedence("ordered", "after"),
    "plain": ctx_plain,
    "release_due": ctx_release_due,
    "worker": ctx_worker,
    "work_amount": ctx_work_amount,
    "select": ctx_select,
    "cumulative": ctx_cumulative,
    "buffer_nonconcurrent": _buffer(False),
    "buffer_concurrent": _buffer(True),
    "indicators": ctx_indicators,
    "worker_indicators": ctx_worker_indicators,
    "precedence_before": _constraint(lambda P, lst, t, o: ps.TaskPrecedence(task_before=t.obj, task_after=o.obj, offset=P.int("c_off", ph=2), kind="lax")),
    "precedence_before_tight": _constraint(lambda P, lst, t, o: ps.TaskPrecedence(task_before=t.obj, task_after=o.obj, kind="tight")),
    "precedence_after": _constraint(lambda P, lst, t, o: ps.TaskPrecedence(task_before=o.obj, task_after=t.obj, offset=P.int("c_off", ph=2), kind="strict")),
    "start_synced": _constraint(lambda P, lst, t, o: ps.TasksStartSynced(task_1=t.obj, task_2=o.obj)),
    "end_synced": _constraint(lambda P, lst, t, o: ps.TasksEndSynced(task_1=o.obj, task_2=t.obj)),
    "dont_overlap": _constraint(lambda P, lst, t, o: ps.TasksDontOverlap(task_1=t.obj, task_2=o.obj)),
    "start_synced_optional_second": _constraint(lambda P, lst, t, o: ps.TasksStartSynced(task_1=o.obj, task_2=t.obj)),
    "end_synced_optional_first": _constraint(lambda P, lst, t, o: ps.TasksEndSynced(task_1=t.obj, task_2=o.obj)),
    "dont_overlap_optional_second": _constraint(lambda P, lst, t, o: ps.TasksDontOverlap(task_1=o.obj, task_2=t.obj)),
    "start_at": _constraint(lambda P, lst, t, o: ps.TaskStartAt(task=t.obj, value=P.int("c_v", ph=4))),
    "end_before": _constraint(lambda P, lst, t, o: ps.TaskEndBefore(task=t.obj, value=P.int("c_v", ph=4))),
    "group_window": _constraint(lambda P, lst, t, o: ps.UnorderedTaskGroup(list_of_tasks=lst, time_interval=(P.int("c_lo", ph=1), P.int("c_hi", ph=30))), True),
    "ordered_group": _constraint(lambda P, lst, t, o: ps.OrderedTaskGroup(list_of_tasks=lst, kind="tight", time_interval_length=P.int("c_len", ph=20)), True),
    "ordered_group_optional_last": _constraint(lambda P, lst, t, o: ps.OrderedTaskGroup(list_of_tasks=lst, kind="tight", time_interval_length=P.int("c_len", ph=20)), True, member_last=True),
    "ordered_group_lax_optional_last": _constraint(lambda P, lst, t, o: ps.OrderedTaskGroup(list_of_tasks=lst, kind="lax", time_interval=(P.int("c_lo", ph=1), P.int("c_hi", ph=30))), True, member_last=True),
    "ordered_group_strict": _constraint(lambda P, lst, t, o: ps.OrderedTaskGroup(list_of_tasks=lst, kind="strict"), True),
    "group_window_optional_last": _constraint(lambda P, lst, t, o: ps.UnorderedTaskGroup(list_of_tasks=lst, time_interval=(P.int("c_lo", ph=1), P.int("c_hi", ph=30))), True, member_last=True),
    "n_in_intervals_optional_last": _constraint(lambda P, lst, t, o: ps.ScheduleNTasksInTimeIntervals(list_of_tasks=lst, nb_tasks_to_schedule=1, kind="min", list_of_time_intervals=[(P.int("c_lo", ph=0), P.int("c_hi", ph=9))]), True, member_last=True),
    "n_in_intervals": _constraint(lambda P, lst, t, o: ps.ScheduleNTasksInTimeIntervals(list_of_tasks=lst, nb_tasks_to_schedule=1, kind="min", list_of_time_intervals=[(P.int("c_lo", ph=0), P.int("c_hi", ph=9))]), True),
}


def _make_t(P, kname, context):
    kw = dict(KINDS[kname])
    if context == "release_due":
        kw.update(release=True, due="deadline")
    if context == "work_amount":
        kw.update(work_amount=True)
    if context in ("indicators", "indicator_max_lateness"):
        kw.update(due="soft", priority=True)
    return make_task(P, "T", optional=True, **kw)


def _make_o(P, context):
    kw = {}
    if context in ("indicators", "indicator_max_lateness"):
        kw.update(due="soft", priority=True)
    return make_task(P, "O", "var", vmin=True, vmax=True, **kw)


def deletion_shape(kname, context):
    name = f"deletion/{kname}/{context}"

    def build(P):
        # the problem without T first (P \\ t), then the problem with T: both through the real API
        with_second = {}
        pb2, hv = new_problem(P, True, name="without")
        o2 = _make_o(P, context)
        extra2 = CONTEXTS[context](P, None, o2) or {}
        s2 = ps.SchedulingSolver(problem=pb2)
        s2.initialize()
        phi2 = list(s2._solver.assertions())
        with_second["extra2"] = extra2
        with_second["solver2"] = s2
        pb, hv = new_problem(P, True, name="with")
        t = _make_t(P, kname, context)
        o = _make_o(P, context)
        extra = CONTEXTS[context](P, t, o) or {}
        # indicator / objective variables carry run-specific names: match them by role (declaration position)
        pairs = []
        e2 = with_second["extra2"]
        for i2, i1 in zip(e2.get("indicators", []), extra.get("indicators", [])):
            if not i2._indicator_variable.eq(i1._indicator_variable):
                pairs.append((i2._indicator_variable, i1._indicator_variable))
        for o2_, o1_ in zip(e2.get("objectives", []), extra.get("objectives", [])):
            if z3.is_expr(o2_._target) and not o2_._target.eq(o1_._target):
                pairs.append((o2_._target, o1_._target))
        if pairs:
            phi2 = [z3.substitute(a, *pairs) for a in phi2]
        named, named2 = {}, {}
        for k, (i2, i1) in enumerate(zip(e2.get("indicators", []), extra.get("indicators", []))):
            named[f"ind{k}"], named2[f"ind{k}"] = i1._indicator_variable, i2._indicator_variable
        for k, (o2_, o1_) in enumerate(zip(e2.get("objectives", []), extra.get("objectives", []))):
            if z3.is_expr(o1_._target):
                named[f"obj{k}"], named2[f"obj{k}"] = o1_._target, o2_._target
        return Ctx(problem=pb, t=t, o=o, phi2=phi2, horizon=hv, extra=extra, solver2=with_second["solver2"], role_pairs=pairs,
                   named=named, named2=named2)

    def obligations(ctx):
        t = ctx.t
        phi1 = list(ctx.phi) + [Not(t.sched)]
        c1, f1 = formula.constants(phi1)
        c2, f2 = formula.constants(ctx.phi2)
        tr = buffer_witness if "buffer" in context else None
        # shared observables: constants both builds talk about (the other task, the horizon, indicator
        # variables, buffer levels ...); the negative parking values of unselected workers are
        # creation-order artefacts and stay existential
        shared = [c for n, c in c1.items() if n in c2 and "_maybe_busy_" not in n]
        obs = [
            # every schedule of the others while T is unscheduled is a schedule of the problem without T
            Ob(f"{PROP}/{name}/unscheduled_task_adds_no_freedom", "complete", valid=And(phi1) if not tr else And(tr(phi1)),
               observables=shared, phi=ctx.phi2, transform=tr, replayer="checks.c06:replay_deletion", extra={"lost_in": "without"}),
            # every schedule of the problem without T is still available when T is left unscheduled
            Ob(f"{PROP}/{name}/unscheduled_task_removes_no_schedule", "complete", valid=And(ctx.phi2) if not tr else And(tr(list(ctx.phi2))),
               observables=shared, phi=phi1, transform=tr, replayer="checks.c06:replay_deletion", extra={"lost_in": "with"}),
        ]
        # (b) nothing is reported for the unscheduled task
        for w in ctx.extra.get("workers", []):
            if t.obj in w._busy_intervals:
                bs, be = w._busy_intervals[t.obj]
                obs.append(Ob(f"{PROP}/{name}/no_assignment_reported_{w.name}", "sound", clause=Or(bs < 0, be < 0), guard=Not(t.sched)))
        return obs

    sh = Shape(name, build, obligations)
    sh.grid_limit = 3
    # interval parameters of the embedding constraints are well-formed and non-negative
    sh.assumptions = lambda P: ([P.v("r_lo") >= 0, P.v("r_lo") < P.v("r_hi")] if "r_lo" in P.terms else []) + \
                               ([P.v("c_lo") >= 0, P.v("c_lo") < P.v("c_hi")] if "c_lo" in P.terms else []) + \
                               [P.v(n) >= 0 for n in ("T_due", "O_due") if n in P.terms and context != "release_due"]  # due dates are dates
    return sh


def replay_deletion(desc):
    """Replay of a deletion-equivalence counterexample, unpatched: the witness fixes the shared
    observables; the real solver must accept them in one problem and reject them in the other."""
    import symx.harness as H
    from symx import engine

    shape = H.get_shape(desc["module"], desc["shape"])
    w = desc["witness"]
    P = engine.Params("conc", values=w["params"])
    with quiet():
        ctx = shape.build(P)  # builds 'without' (solver2 initialised) then 'with' (active problem)
        pins = []
        for n, v in w["pins"].items():
            if "!" in n or n.startswith("Indicator_Indicator"):
                continue  # uid-named indicator variables travel under their role alias
            pins.append(z3.Bool(n) == z3.BoolVal(v) if isinstance(v, bool) else z3.Int(n) == v)
        ap = w.get("alias_pins") or {}
        pins1 = pins + [ctx.named[a] == v for a, v in ap.items() if a in ctx.named]
        pins2 = pins + [ctx.named2[a] == v for a, v in ap.items() if a in ctx.named2]
        s2 = ctx.solver2
        for e in pins2:
            s2.append_z3_assertion(e)
        r_without = s2.solve()
        for i, e in enumerate(pins1):
            ps.ConstraintFromExpression(name=f"__pin_{i}", expression=e)
        ps.OptionalTaskForceSchedule(name="__leave_T_out", task=ctx.t.obj, to_be_scheduled=False)
        s1 = ps.SchedulingSolver(problem=ctx.problem)
        r_with = s1.solve()
    engine.reset_z3_globals()
    print(f"replay: pinned schedule {w['pins']}: problem without T -> {'solution' if r_without else r_without}; "
          f"problem with T left unscheduled -> {'solution' if r_with else r_with}")
    lost_in = desc["extra"]["lost_in"]
    if lost_in == "with" and r_without and r_with is False:
        print("CONFIRMED: a schedule of the problem without T is lost when T is declared and left unscheduled")
        return 1
    if lost_in == "without" and r_with and r_without is False:
        print("CONFIRMED: leaving T unscheduled admits a schedule that the problem without T rejects")
        return 1
    return 0


# ---- (a) scheduled optional task obeys every timing rule ------------------------------------------
def timing_shape(kname, release, due, context):
    name = f"scheduled/{kname}/rel{int(release)}/due_{due or 'none'}/{context}"

    def build(P):
        pb, hv = new_problem(P, True)
        kw = dict(KINDS[kname])
        t = make_task(P, "T", optional=True, release=release, due=due, **kw)
        o = make_task(P, "O", "fixed")
        extra = {}
        if context != "plain":
            extra = CONTEXTS[context](P, t, o) or {}
        return Ctx(problem=pb, t=t, o=o, horizon=hv, extra=extra)

    def obligations(ctx):
        H = ctx.problem._horizon
        obs = [Ob(f"{PROP}/{name}/{cn}", "sound", clause=cl, guard=ctx.t.sched) for cn, cl in task_must(ctx.t, H, ctx.horizon)]
        # when not scheduled the solution reports it as such: flag false is reachable and true is reachable
        obs.append(Ob(f"{PROP}/{name}/can_be_scheduled", "complete", valid=And(ctx.t.sched, task_valid(ctx.t, H, ctx.horizon),
                      task_valid(ctx.o, H, ctx.horizon), H <= ctx.horizon), observables=ctx.t.observables() + ctx.o.observables() + [H])
                   ) if context == "plain" else None
        return [o for o in obs if o is not None]

    return Shape(name, build, obligations)


# ---- (d) scheduling rules -----------------------------------------------------------------------
def rule_shape(rule, arg=None):
    name = f"rule/{rule}" + (f"/{arg}" if arg is not None else "")

    def build(P):
        pb, hv = new_problem(P, True)
        ts = [make_task(P, n, k, optional=True) for n, k in (("T1", "fixed"), ("T2", "var"), ("T3", "zero"))]
        m = make_task(P, "M", "fixed")
        cond = z3.Bool("rule_condition")
        if rule == "force":
            ps.OptionalTaskForceSchedule(task=ts[0].obj, to_be_scheduled=arg)
        elif rule == "condition":
            ps.OptionalTaskConditionSchedule(task=ts[0].obj, condition=cond)
        elif rule == "condition_expr":
            ps.OptionalTaskConditionSchedule(task=ts[0].obj, condition=m.s >= P.term("rule_k", ph=3))
        elif rule == "dependency":
            ps.OptionalTasksDependency(task_1=ts[0].obj, task_2=ts[1].obj)
        elif rule == "dependency_on_mandatory":
            ps.OptionalTasksDependency(task_1=m.obj, task_2=ts[1].obj)
        elif rule == "count":
            kind, n, k = arg
            ps.ForceScheduleNOptionalTasks(list_of_optional_tasks=[t.obj for t in ts[:k]], nb_tasks_to_schedule=n, kind=kind)
        return Ctx(problem=pb, ts=ts, m=m, cond=cond, horizon=hv)

    def obligations(ctx):
        ts, m, H = ctx.ts, ctx.m, ctx.problem._horizon
        s = [t.sched for t in ts]
        if rule == "force":
            rel = s[0] == z3.BoolVal(arg)
        elif rule == "condition":
            rel = s[0] == ctx.cond
        elif rule == "condition_expr":
            rel = s[0] == (m.s >= ctx.P.v("rule_k"))
        elif rule == "dependency":
            rel = s[0] == s[1]
        elif rule == "dependency_on_mandatory":
            rel = s[1]
        else:
            kind, n, k = arg
            total = Sum([b2i(x) for x in s[:k]])
            rel = {"exact": total == n, "min": total >= n, "max": total <= n}[kind]
        obs = [Ob(f"{PROP}/{name}/rule_honoured", "sound", clause=rel)]
        # completeness, per decision: every subset of scheduled tasks the rule allows is admitted, with
        # any valid placement of the scheduled ones (the unscheduled ones' variables are existential)
        for subset in itertools.product((False, True), repeat=len(ts)):
            cl = [task_valid(m, H, ctx.horizon), H <= ctx.horizon, rel]
            observables = m.observables() + [H] + [t.obj._scheduled for t in ts] + ([ctx.cond] if rule == "condition" else [])
            for t, on in zip(ts, subset):
                if on:
                    cl += [t.sched, task_valid(t, H, ctx.horizon)]
                    observables += [o for o in t.observables() if not o.eq(t.obj._scheduled)]
                else:
                    cl.append(Not(t.sched))
            tag = "".join(str(int(b)) for b in subset)
            obs.append(Ob(f"{PROP}/{name}/allowed_decision_{tag}_admitted", "complete", valid=And(cl), observables=observables,
                          extra={"vacuous_ok": True}))
        return obs

    sh = Shape(name, build, obligations)
    sh.grid_limit = 2
    return sh


def shapes(tier):
    out = []
    thorough = tier == "thorough"
    for context in CONTEXTS:
        if thorough or context in ("plain", "release_due", "worker", "select"):
            knames = list(KINDS)
        elif context in ("buffer_nonconcurrent", "indicators", "precedence_before"):
            knames = list(BASIC_KINDS)
        else:
            knames = ["fixed"]
        for kname in knames:
            if kname == "zero" and context == "work_amount":
                pass
            out.append(deletion_shape(kname, context))
    for kname in BASIC_KINDS:
        for release, due in [(False, None), (True, "deadline"), (True, "soft")]:
            out.append(timing_shape(kname, release, due, "plain"))
        for context in ("worker", "select", "buffer_nonconcurrent", "precedence_after", "group_window"):
            out.append(timing_shape(kname, True, "deadline", context))
    out += [rule_shape("force", True), rule_shape("force", False), rule_shape("condition"), rule_shape("condition_expr"),
            rule_shape("dependency"), rule_shape("dependency_on_mandatory")]
    for k in (2, 3):
        for kind in ("exact", "min", "max"):
            for n in range(1, k + (2 if kind == "max" else 1)):
                out.append(rule_shape("count", (kind, n, k)))
    return out


def main(tier):
    return run_property(
        PROP, "checks.c06", tier, "translation_validation",
        assumptions=[
            "deletion equivalence: the problem with the optional task T (restricted to T unscheduled) and the problem built without T are both produced by the real API in one symbolic run; equality is over every shared z3 constant (task variables of the other task, busy intervals, horizon, indicator variables, buffer levels), T's own variables and all auxiliaries are quantified",
            "one optional task T next to one other task O, in 21 embedding contexts (resources, buffers, indicators/objectives, every two-task constraint, groups, counting rule); larger mixes outside the claim",
            "buffer auxiliaries (array / forall-defined functions) are eliminated with explicit witnesses (see C05)",
            "OptionalTasksDependency is read as 'scheduled alike' (class docstring)",
        ])
