"""C13 - a solver object stays truthful across repeated and mixed calls (and C12's machinery).
The real SchedulingSolver methods are driven through every call sequence up to the bound against the
contract-level solver stub; after EVERY operation on EVERY path (all verdict sequences, symbolic model
values) the invariant is checked: the solver stack denotes  Base /\\ legitimate blocking clauses
(depth 1, no leftover optimisation bound, nothing lost), and what the operation returned matches the
verdicts it received."""
import itertools
import os
import tempfile
import warnings

import z3

import processscheduler as ps

from symx import engine, formula, stubs
from symx.formula import And, Or, Not, Implies
from symx.harness import Shape, Ob, Ctx, run_property, quiet
from checks.common import make_task

PROP = "C13"
OPS = ["initialize", "export", "solve", "another", "another_var"]


def declare(P, config, with_optional=False, with_worker=False):
    pb = ps.SchedulingProblem(name="session", horizon=P.int("hz", ph=30))
    a = make_task(P, "A", "fixed")
    b = make_task(P, "B", "var", vmin=True, vmax=True)
    tis = [a, b]
    if with_optional:
        tis.append(make_task(P, "C", "fixed", optional=True))
    ps.TaskPrecedence(task_before=a.obj, task_after=b.obj, offset=P.int("off", ph=1))
    if with_worker:
        w = ps.Worker(name="W")
        a.obj.add_required_resource(w)
        b.obj.add_required_resource(ps.SelectWorkers(list_of_workers=[w, ps.Worker(name="W2")], nb_workers_to_select=1))
    cfg = {}
    if config == "incremental":
        ps.ObjectiveMinimizeMakespan()
    elif config == "incremental_max":
        ps.ObjectiveTasksStartLatest()
    elif config in ("incremental_maxiter1", "incremental_maxiter2"):
        # the iteration limit is a rarely used exit of the optimisation loop
        ps.ObjectiveMinimizeMakespan()
        cfg["max_iter"] = int(config[-1])
    elif config in ("incremental_max_maxiter1", "incremental_max_maxiter2"):
        # ... cut short on a maximisation (the solver's first models are far from the optimum)
        ps.ObjectiveTasksStartLatest()
        cfg["max_iter"] = int(config[-1])
    elif config == "optimize":
        ps.ObjectiveMinimizeMakespan()
        cfg["optimizer"] = "optimize"
    elif config == "multi":
        # two objectives of the same direction: the incremental optimiser works on their weighted sum
        ps.ObjectiveMinimizeMakespan()
        ps.ObjectiveMinimizeFlowtime()
    elif config == "debug":
        cfg["debug"] = True
    elif config == "logics":
        cfg["logics"] = "QF_LIA"
    return pb, tis, cfg


def run_session(P, seq, config, max_checks, with_optional=False, with_worker=False):
    """Run the call sequence on one SchedulingSolver; return the per-operation records."""
    pb, tis, cfg = declare(P, config, with_optional, with_worker)
    holder = {}
    steps = []
    tmpdir = tempfile.mkdtemp(prefix="c13_")
    try:
        return _run_session_in(tmpdir, P, pb, tis, cfg, config, seq, max_checks, holder, steps)
    finally:
        # (also when the explorer abandons the path: every re-execution gets a directory of its own)
        import shutil
        shutil.rmtree(tmpdir, ignore_errors=True)


def _run_session_in(tmpdir, P, pb, tis, cfg, config, seq, max_checks, holder, steps):
    with warnings.catch_warnings():
        warnings.simplefilter("ignore")
        with stubs.stubbed(P.ex, max_checks=max_checks, holder=holder, core_mode="all") as (solvers, proxy):
            solver = ps.SchedulingSolver(problem=pb, **cfg)
            for i, op in enumerate(seq):
                rec = {"op": op, "exc": None, "result": None}
                stub_before = solvers[-1] if solvers else None
                n_checks_before = len(stub_before.checks) if stub_before else 0
                rec["model_before"] = solver._model
                try:
                    if op == "initialize":
                        solver.initialize()
                    elif op == "export":
                        solver.export_to_smt2(os.path.join(tmpdir, f"s{i}.smt2"))
                    elif op == "solve":
                        rec["result"] = solver.solve()
                    elif op == "another":
                        rec["result"] = solver.find_another_solution()
                    elif op == "another_var":
                        rec["result"] = solver.find_another_solution_for_variable(tis[1].s)
                except engine.PathAbort:
                    raise
                except Exception as e:  # behaviour of the real code: recorded, judged by the obligations
                    rec["exc"] = e
                stub = solvers[-1] if solvers else None
                rec["stub"] = stub
                rec["same_solver"] = stub is stub_before
                rec["depth"] = len(stub.frames) if stub else 0
                rec["stack"] = stub.assertions() if stub else []
                rec["new_checks"] = (stub.checks[n_checks_before:] if rec["same_solver"] else list(stub.checks)) if stub else []
                rec["model_after"] = solver._model
                rec["objectives"] = list(stub.objectives) if stub else []
                steps.append(rec)
    return Ctx(problem=pb, tis=tis, solver=solver, steps=steps, cfg=cfg, config=config, seq=seq)


def _decide(path, goal_negation, timeout=30000):
    base = [formula.to_z3(x) for x in list(path.assume) + list(path.pc)]
    v, m, _ = formula.solve(base + list(goal_negation), timeout)
    return v, m


def _witness(ctx, path, what):
    v, m = _decide(path, [])
    if v != "sat":
        return {"status": "unsat" if v == "unsat" else "unknown", "queries": 1, "note": "path infeasible"}
    P = ctx.P
    params = {n: (formula.val(m, t) if z3.is_expr(t) else t) for n, t in P.terms.items()}
    verdicts = []
    for st in ctx.steps:
        verdicts.append([str(c["verdict"]) for c in st["new_checks"]])
    return {"status": "sat", "queries": 1,
            "witness": {"params": params, "pins": {}, "what": what, "verdicts_per_op": verdicts, "seq": list(ctx.seq)}}


def block_spec(ctx, model, variable=None):
    """the clause find_another_solution[_for_variable] must add, w.r.t. the current model"""
    if variable is not None:
        return variable != model.values[variable.decl().name()]
    alts = []
    for t in ctx.tis:
        alts.append(t.s != model.values[t.s.decl().name()])
        alts.append(t.e != model.values[t.e.decl().name()])
        if t.optional:
            alts.append(t.obj._scheduled != z3.BoolVal(model.bools[t.obj._scheduled.decl().name()]))
    return Or(alts)


def ob_invariant(ctx, path):
    """after every operation: depth 1, stack == Base ++ blocking clauses (each one the exact clause of
    its find_another call), nothing else and nothing missing"""
    cur, base_ids, blocks, queries = None, None, [], 0
    first_base = None
    for i, st in enumerate(ctx.steps):
        stub = st["stub"]
        if stub is None:
            continue
        if stub is not cur:  # (re-)initialised: a fresh solver, earlier blocks are gone with the old one
            cur, base_ids, blocks = stub, None, []
        if st["op"] in ("another", "another_var") and st["exc"] is None and st["model_before"] is not None:
            blocks.append((st["op"], st["model_before"]))
        if st["depth"] != 1:
            return _witness(ctx, path, f"after op #{i} ({st['op']}) the solver stack has depth {st['depth']} (leftover push)")
        stack = st["stack"]
        if base_ids is None:
            base_ids = [a.get_id() for a in stack[: max(0, len(stack) - len(blocks))]]
            def norm(a):  # debug mode: tracking literals are fresh per initialisation, the tracked assertion is what counts
                if z3.is_implies(a) and z3.is_const(a.arg(0)) and a.arg(0).decl().name().startswith("asst_"):
                    return a.arg(1).get_id()
                return a.get_id()
            nbase = {norm(a) for a in stack[: len(base_ids)]}
            if first_base is None:
                first_base = nbase
            elif nbase != first_base:
                return _witness(ctx, path, f"after op #{i} ({st['op']}) the re-initialised solver carries a different base constraint system ({len(nbase - first_base)} new, {len(first_base - nbase)} missing assertions)")
        if [a.get_id() for a in stack[: len(base_ids)]] != base_ids:
            return _witness(ctx, path, f"after op #{i} ({st['op']}) the base assertions changed")
        extra = stack[len(base_ids):]
        if len(extra) != len(blocks):
            return _witness(ctx, path, f"after op #{i} ({st['op']}): {len(extra)} extra assertions on the stack for {len(blocks)} find_another calls: {extra[-1] if extra else ''}")
        for (kind, model), clause in zip(blocks, extra):
            if z3.is_implies(clause) and z3.is_const(clause.arg(0)) and clause.arg(0).decl().name().startswith("asst_"):
                clause = clause.arg(1)  # debug mode: tracked assertion
            spec = block_spec(ctx, model, ctx.tis[1].s if kind == "another_var" else None)
            v, m = _decide(path, [z3.Xor(clause, spec)])
            queries += 1
            if v != "unsat":
                return _witness(ctx, path, f"blocking clause {clause} is not equivalent to {spec}")
    return {"status": "unsat", "queries": queries}


def ob_results(ctx, path):
    """an operation returns False only after an unsat/unknown verdict, a solution only from the last sat model;
    find_another* without a current solution raises; nothing else raises"""
    for i, st in enumerate(ctx.steps):
        op = st["op"]
        if st["exc"] is not None:
            if op in ("another", "another_var") and st["model_before"] is None and isinstance(st["exc"], AssertionError):
                continue
            return _witness(ctx, path, f"op #{i} ({op}) raised {type(st['exc']).__name__}: {st['exc']}")
        if op in ("solve", "another", "another_var"):
            checks = st["new_checks"]
            sats = [c for c in checks if c["verdict"] == z3.sat]
            if st["result"] is False:
                if sats and not (ctx.config == "optimize"):
                    return _witness(ctx, path, f"op #{i} ({op}) returned False although a model was found")
                if not checks:
                    return _witness(ctx, path, f"op #{i} ({op}) returned False without asking the solver")
                if ctx.config == "optimize" and checks[-1]["verdict"] == z3.sat:
                    return _witness(ctx, path, f"op #{i} ({op}) returned False after a sat verdict")
            else:
                if not sats:
                    return _witness(ctx, path, f"op #{i} ({op}) returned a solution without a sat verdict")
                if st["model_after"] is not sats[-1]["model"]:
                    return _witness(ctx, path, f"op #{i} ({op}): the current model is not the last sat model")
                lm = sats[-1]["model"]
                for t in ctx.tis:
                    ts = st["result"].tasks[t.name]
                    if not (z3.is_expr(ts.start) and ts.start.eq(lm.mapping.get(t.s.decl().name()))):
                        return _witness(ctx, path, f"op #{i} ({op}): reported start of {t.name} is not the value of the last sat model")
    return {"status": "unsat", "queries": 0}


def ob_false_justified(ctx, path):
    """an operation that answers False (no schedule / no other schedule) found no model during the call: the unsat
    verdict it relies on must then concern the problem's own system - base constraints plus blocking clauses - and
    not a system strengthened by a pushed frame (a stale bound kept from an earlier call, ...): every assertion of
    the frames above depth 1 at that check must follow from the frame at depth 1"""
    queries = 0
    for i, st in enumerate(ctx.steps):
        if st["op"] not in ("solve", "another", "another_var") or st["result"] is not False or st["exc"] is not None:
            continue
        checks = st["new_checks"]
        if not checks or any(c["verdict"] == z3.sat for c in checks):
            continue
        last = checks[-1]
        frames = last.get("frames") or []
        if len(frames) <= 1:
            continue
        pushed = [a for f in frames[1:] for a in f]
        if not pushed:
            continue
        v, m = _decide(path, list(frames[0]) + [z3.Not(z3.And(pushed))])
        queries += 1
        if v != "unsat":
            return _witness(ctx, path, f"op #{i} ({st['op']}) answers False on the strength of a check made under pushed assertions {pushed[:2]} that the problem's own system does not imply")
    return {"status": "unsat", "queries": queries}


def ob_objective_once(ctx, path):
    """the objective is registered exactly once per solver object, whatever the sequence"""
    for i, st in enumerate(ctx.steps):
        if ctx.config == "optimize" and st["stub"] is not None and st["stub"].kind == "Optimize":
            if len(st["objectives"]) != 1:
                return _witness(ctx, path, f"after op #{i} the Optimize solver carries {len(st['objectives'])} objectives")
    return {"status": "unsat", "queries": 0}


def session_shape(prop, seq, config, max_checks, with_optional=False, with_worker=False, obligations=None):
    name = f"seq/{config}/{'-'.join(seq)}" + ("/optional" if with_optional else "") + ("/workers" if with_worker else "")
    obl = obligations or {"stack_invariant": ob_invariant, "results_match_verdicts": ob_results, "objective_registered_once": ob_objective_once,
                          "false_answers_rest_on_the_problems_own_system": ob_false_justified}

    def build(P):
        return run_session(P, seq, config, max_checks, with_optional, with_worker)

    def obs(ctx):
        return [Ob(f"{prop}/{name}/{n}", "custom", fn=f, replayer="checks.c13:replay_session") for n, f in obl.items()]

    sh = Shape(name, build, obs, initialize=False)
    sh.grid = False
    sh.max_paths = 4000  # long sessions with the incremental optimiser: 3 verdicts per check() call
    sh.session = dict(seq=list(seq), config=config, with_optional=with_optional, with_worker=with_worker)
    return sh


def shapes(tier):
    out = []
    thorough = tier == "thorough"
    L = 4 if thorough else 3
    configs = ["none", "incremental", "optimize", "incremental_max", "debug", "logics"]
    for config in configs:
        maxlen = L if config in ("none", "incremental", "optimize") else 2
        for n in range(1, maxlen + 1):
            for seq in itertools.product(OPS, repeat=n):
                # sequences without any solve only exercise initialize/export/raising paths: keep the short ones
                if "solve" not in seq and n > 2:
                    continue
                if n == maxlen and n >= 3 and not thorough:
                    # length-3 sequences in the quick tier: those with at least two solver-consulting calls
                    if sum(1 for o in seq if o in ("solve", "another", "another_var")) < 2:
                        continue
                out.append(session_shape(PROP, seq, config, max_checks=4 if config.startswith("incremental") else 3))
    for seq in [("solve",), ("solve", "solve"), ("solve", "another"), ("initialize", "solve"), ("initialize", "initialize"), ("solve", "initialize"),
                ("solve", "initialize", "solve")]:
        out.append(session_shape(PROP, seq, "multi", max_checks=4))
    for config in ("incremental_maxiter1", "incremental_maxiter2", "incremental_max_maxiter1"):
        for seq in [("solve",), ("solve", "solve"), ("solve", "another"), ("solve", "export"), ("solve", "another_var"), ("solve", "solve", "solve"),
                    ("solve", "another", "solve")]:
            out.append(session_shape(PROP, seq, config, max_checks=5))
    return out


# ---- replay with the real z3 -----------------------------------------------------------------------
def replay_session(desc):
    """Run the same call sequence on the real solver (no stub, no patch) on the concrete problem and
    check the end-to-end claims: a feasible problem is never reported infeasible by a later solve();
    every returned schedule satisfies the base constraint system; successive find_another_solution
    results are pairwise distinct; find_another fails only when no other schedule exists."""
    import io
    import contextlib
    import symx.harness as H

    shape = H.get_shape(desc["module"], desc["shape"])
    w = desc["witness"]
    se = shape.session
    P = engine.Params("conc", values=w["params"])
    out = io.StringIO()
    problems = []
    with contextlib.redirect_stdout(out), warnings.catch_warnings():
        warnings.simplefilter("ignore")
        pb, tis, cfg = declare(P, se["config"], se["with_optional"], se["with_worker"])
        solver = ps.SchedulingSolver(problem=pb, **cfg)
        # oracle: the base constraint system of an identical, separately built problem
        pb0, tis0, cfg0 = declare(engine.Params("conc", values=w["params"]), se["config"], se["with_optional"], se["with_worker"])
        s0 = ps.SchedulingSolver(problem=pb0, **{k: v for k, v in cfg0.items() if k != "debug"})
        s0.initialize()
        base = [a for a in s0._solver.assertions()]
        import processscheduler.base as psb
        psb.active_problem = pb
        oracle = z3.Solver()
        oracle.add(base)
        feasible = oracle.check() == z3.sat
        returned = []
        var_blocks = 0
        tmpdir = tempfile.mkdtemp(prefix="c13r_")
        for i, op in enumerate(se["seq"]):
            try:
                if op == "initialize":
                    solver.initialize()
                    returned = []
                elif op == "export":
                    solver.export_to_smt2(os.path.join(tmpdir, f"s{i}.smt2"))
                elif op in ("solve", "another", "another_var"):
                    had_model = solver._model is not None
                    if op == "solve":
                        r = solver.solve()
                    elif op == "another":
                        r = solver.find_another_solution()
                    else:
                        r = solver.find_another_solution_for_variable(tis[1].s)
                        if r is not False:
                            var_blocks += 1
                    if r is False:
                        if op == "solve" and feasible and not returned:
                            problems.append(f"op #{i} solve() reports no solution on a feasible problem")
                        elif op == "solve" and feasible and returned:
                            # blocks may legitimately exhaust the schedules: ask the oracle
                            oracle.push()
                            for s_, e_ in returned:
                                oracle.add(z3.Or([z3.Or(t.s != s_[t.name], t.e != e_[t.name]) for t in tis0]))
                            left = oracle.check() == z3.sat
                            oracle.pop()
                            if left:
                                problems.append(f"op #{i} solve() reports no solution although valid schedules remain")
                        elif op == "another" and had_model:
                            oracle.push()
                            for s_, e_ in returned:
                                oracle.add(z3.Or([z3.Or(t.s != s_[t.name], t.e != e_[t.name]) for t in tis0]))
                            left = oracle.check() == z3.sat
                            oracle.pop()
                            if left:
                                problems.append(f"op #{i} find_another_solution() fails although another valid schedule exists")
                        elif op == "another_var" and had_model and returned:
                            # the variable is B's start: a schedule with another start value, different from the schedules
                            # excluded so far through this variable
                            oracle.push()
                            oracle.add(tis0[1].s != returned[-1][0][tis0[1].name])
                            left = oracle.check() == z3.sat
                            oracle.pop()
                            if left and not var_blocks:
                                problems.append(f"op #{i} find_another_solution_for_variable() fails although a valid schedule with another value exists")
                    else:
                        starts = {n: t.start for n, t in r.tasks.items()}
                        ends = {n: t.end for n, t in r.tasks.items()}
                        oracle.push()
                        for t in tis0:
                            if r.tasks[t.name].scheduled:
                                oracle.add(t.s == starts[t.name], t.e == ends[t.name])
                        if oracle.check() != z3.sat:
                            problems.append(f"op #{i} ({op}) returned a schedule that violates the base constraint system: {starts} {ends}")
                        oracle.pop()
                        if op == "another" and (starts, ends) in returned:
                            problems.append(f"op #{i} find_another_solution() returned a schedule already returned: {starts} {ends}")
                        returned.append((starts, ends))
            except AssertionError as e:
                if op in ("another", "another_var") and solver._model is None:
                    continue
                problems.append(f"op #{i} ({op}) raised {type(e).__name__}: {e}")
            except Exception as e:
                problems.append(f"op #{i} ({op}) raised {type(e).__name__}: {e}")
        for f in os.listdir(tmpdir):
            os.unlink(os.path.join(tmpdir, f))
        os.rmdir(tmpdir)
        # what is left on the real solver's stack after the session: a valid schedule that was never returned and
        # that the stack excludes can never be delivered by a later call (the enumeration cannot be exhaustive, a
        # later solve() may report a feasible problem infeasible). Only when the stack speaks about the problem's own
        # constants (no run-specific names), so that the query needs no quantifier.
        try:
            if not problems and feasible and solver._solver is not None and not isinstance(solver._solver, z3.Optimize) and "another_var" not in se["seq"]:
                stack = list(solver._solver.assertions())
                cs, _ = formula.constants(stack)
                cb, _ = formula.constants(base)
                if set(cs) <= set(cb):
                    oracle.push()
                    for s_, e_ in returned:
                        oracle.add(z3.Or([z3.Or(t.s != s_[t.name], t.e != e_[t.name]) for t in tis0]))
                    oracle.add(z3.Not(z3.And(stack)))
                    if oracle.check() == z3.sat:
                        m = oracle.model()
                        lost = {t.name: (m.eval(t.s, True), m.eval(t.e, True)) for t in tis0}
                        problems.append(f"after the session the solver's own assertions exclude the valid, never returned schedule {lost}: no later call can deliver it")
                    oracle.pop()
        except z3.Z3Exception:
            pass
    engine.reset_z3_globals()
    print(f"replay: sequence {se['seq']} on config {se['config']}: base feasible = {feasible}; problems = {problems}")
    if problems:
        print("CONFIRMED: " + problems[0])
        return 1
    return 0


def main(tier):
    return run_property(
        PROP, "checks.c13", tier, "model_checking",
        assumptions=[
            "solver stub contract: sat => model of the stack, unsat => no model; push/pop/add as documented",
            "call sequences of length <= 3 (thorough 4) over {initialize, export_to_smt2, solve, find_another_solution, find_another_solution_for_variable} on one solver object; at most 3-4 check() calls per path",
            "configurations: no objective, one objective with the incremental optimiser (min and max), with z3.Optimize, debug mode, an explicit logic; Pareto multi-objective mode is exempt by the property",
            "the invariant compares assertion ASTs: base assertions must persist unchanged and only exact blocking clauses may be added, at stack depth 1",
        ])
