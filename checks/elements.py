"""Reference semantics (DESIGN Appendix A) of the task constraints, as data: for each constraint
kind how to declare it through the real API with symbolic parameters, its S_must clauses (what
every admitted schedule must satisfy, guarded by the scheduled flags) and its S_valid formula (what
is valid beyond dispute; None where the documentation is ambiguous)."""
import itertools

import z3

import processscheduler as ps

from symx.formula import And, Or, Not, Implies, Sum, b2i, to_z3


def _cmp(kind, a, b):
    a, b = to_z3(a), to_z3(b)
    if kind == "lax":
        return a <= b
    if kind == "strict":
        return a < b
    return a == b


def _count(kind, total, n):
    if kind == "min":
        return total >= n
    if kind == "max":
        return total <= n
    return total == n


class Element:
    """name, ntasks, build(P, tis, **kw) -> constraint object, must(P, tis) -> [(cname, clause)],
    valid(P, tis) -> formula | None, variants -> list of kwargs dicts."""

    def __init__(self, name, ntasks, build, must, valid=None, variants=({},), lenpos=False, grid=None):
        self.name, self.ntasks, self.build, self.must, self.valid = name, ntasks, build, must, valid
        self.variants = list(variants)
        self.lenpos = lenpos  # S_must only meaningful for positive-length tasks (order-based rules)
        self.grid = grid


ELEMENTS = {}


def element(name, ntasks, variants=({},), lenpos=False):
    def deco(cls):
        ELEMENTS[name] = Element(name, ntasks, cls.build, cls.must, getattr(cls, "valid", None), variants, lenpos)
        return cls

    return deco


# --- single task constraints ---------------------------------------------------------------------
@element("TaskStartAt", 1)
class _StartAt:
    @staticmethod
    def build(P, tis, optional=False, **kw):
        return ps.TaskStartAt(name="cst", task=tis[0].obj, value=P.int("c_value", ph=3), optional=optional)

    @staticmethod
    def must(P, tis, **kw):
        return [("start_eq", tis[0].s == P.v("c_value"))]


@element("TaskEndAt", 1)
class _EndAt:
    @staticmethod
    def build(P, tis, optional=False, **kw):
        return ps.TaskEndAt(name="cst", task=tis[0].obj, value=P.int("c_value", ph=7), optional=optional)

    @staticmethod
    def must(P, tis, **kw):
        return [("end_eq", tis[0].e == P.v("c_value"))]


@element("TaskStartAfter", 1, variants=[dict(kind="lax"), dict(kind="strict")])
class _StartAfter:
    @staticmethod
    def build(P, tis, kind="lax", optional=False, **kw):
        return ps.TaskStartAfter(name="cst", task=tis[0].obj, value=P.int("c_value", ph=3), kind=kind, optional=optional)

    @staticmethod
    def must(P, tis, kind="lax", **kw):
        v = P.v("c_value")
        return [("start_after", tis[0].s >= v if kind == "lax" else tis[0].s > v)]


@element("TaskEndBefore", 1, variants=[dict(kind="lax"), dict(kind="strict")])
class _EndBefore:
    @staticmethod
    def build(P, tis, kind="lax", optional=False, **kw):
        return ps.TaskEndBefore(name="cst", task=tis[0].obj, value=P.int("c_value", ph=30), kind=kind, optional=optional)

    @staticmethod
    def must(P, tis, kind="lax", **kw):
        v = P.v("c_value")
        return [("end_before", tis[0].e <= v if kind == "lax" else tis[0].e < v)]


# --- two task constraints ------------------------------------------------------------------------
@element("TaskPrecedence", 2, variants=[dict(kind=k, offset=o) for k in ("lax", "strict", "tight") for o in (True, False)])
class _Precedence:
    @staticmethod
    def build(P, tis, kind="lax", offset=True, optional=False, **kw):
        kwargs = dict(name="cst", task_before=tis[0].obj, task_after=tis[1].obj, kind=kind, optional=optional)
        if offset:
            kwargs["offset"] = P.int("c_offset", ph=1)
        return ps.TaskPrecedence(**kwargs)

    @staticmethod
    def must(P, tis, kind="lax", offset=True, **kw):
        o = P.v("c_offset") if offset else 0
        return [("precedence", _cmp(kind, tis[0].e + o, tis[1].s))]


@element("TasksStartSynced", 2)
class _StartSynced:
    @staticmethod
    def build(P, tis, optional=False, **kw):
        return ps.TasksStartSynced(name="cst", task_1=tis[0].obj, task_2=tis[1].obj, optional=optional)

    @staticmethod
    def must(P, tis, **kw):
        return [("start_synced", tis[0].s == tis[1].s)]


@element("TasksEndSynced", 2)
class _EndSynced:
    @staticmethod
    def build(P, tis, optional=False, **kw):
        return ps.TasksEndSynced(name="cst", task_1=tis[0].obj, task_2=tis[1].obj, optional=optional)

    @staticmethod
    def must(P, tis, **kw):
        return [("end_synced", tis[0].e == tis[1].e)]


@element("TasksDontOverlap", 2)
class _DontOverlap:
    @staticmethod
    def build(P, tis, optional=False, **kw):
        return ps.TasksDontOverlap(name="cst", task_1=tis[0].obj, task_2=tis[1].obj, optional=optional)

    @staticmethod
    def must(P, tis, **kw):
        a, b = tis
        return [("disjoint", Or(a.e <= b.s, b.e <= a.s))]

    @staticmethod
    def valid(P, tis, **kw):
        a, b = tis
        # exactly one of the two orders holds (zero-length ties are the ambiguous region)
        return z3.Xor(a.e <= b.s, b.e <= a.s)


def contiguous_must(tis):
    """Among tasks of positive length: if j is the next task by start after i then s_j = e_i."""
    cl = []
    for i, j in itertools.permutations(range(len(tis)), 2):
        a, b = tis[i], tis[j]
        between = [And(tis[k].s > a.s, tis[k].s < b.s) for k in range(len(tis)) if k not in (i, j)]
        nxt = And(a.s < b.s, Not(Or(between)))
        cl.append((f"next_{i}_{j}", Implies(nxt, b.s == a.e)))
    cl.append(("distinct_starts", And([a.s != b.s for a, b in itertools.combinations(tis, 2)])))
    return cl


def contiguous_valid(tis):
    alts = []
    for perm in itertools.permutations(range(len(tis))):
        alts.append(And([tis[perm[k + 1]].s == tis[perm[k]].e for k in range(len(perm) - 1)]))
    return And(Or(alts), And([t.e > t.s for t in tis]))


@element("TasksContiguous", 2, lenpos=True)
class _Contiguous2:
    @staticmethod
    def build(P, tis, optional=False, **kw):
        return ps.TasksContiguous(name="cst", list_of_tasks=[t.obj for t in tis], optional=optional)

    @staticmethod
    def must(P, tis, **kw):
        return contiguous_must(tis)

    @staticmethod
    def valid(P, tis, **kw):
        return contiguous_valid(tis)


ELEMENTS["TasksContiguous3"] = Element("TasksContiguous3", 3, _Contiguous2.build, _Contiguous2.must, _Contiguous2.valid, lenpos=True)


# --- groups --------------------------------------------------------------------------------------
def _group_kwargs(P, window):
    kw = {}
    if window == "interval":
        kw["time_interval"] = (P.int("c_lo", ph=0), P.int("c_hi", ph=40))
    elif window == "length":
        kw["time_interval_length"] = P.int("c_len", ph=30)
    return kw


def _group_must(P, tis, window):
    cl = []
    if window == "interval":
        lo, hi = P.v("c_lo"), P.v("c_hi")
        for i, t in enumerate(tis):
            cl.append((f"inside_{i}", And(t.s >= lo, t.e <= hi)))
    elif window == "length":
        L = P.v("c_len")
        for i, j in itertools.product(range(len(tis)), repeat=2):
            cl.append((f"span_{i}_{j}", tis[i].e - tis[j].s <= L))
    return cl


@element("UnorderedTaskGroup", 2, variants=[dict(window="interval"), dict(window="length")])
class _UGroup:
    @staticmethod
    def build(P, tis, window="interval", optional=False, **kw):
        return ps.UnorderedTaskGroup(name="cst", list_of_tasks=[t.obj for t in tis], optional=optional, **_group_kwargs(P, window))

    @staticmethod
    def must(P, tis, window="interval", **kw):
        return _group_must(P, tis, window)


ELEMENTS["UnorderedTaskGroup3"] = Element("UnorderedTaskGroup3", 3, _UGroup.build, _UGroup.must, None,
                                          [dict(window="interval"), dict(window="length")])


@element("OrderedTaskGroup", 2, variants=[dict(window=w, kind=k) for w in ("interval", "length") for k in ("lax", "strict", "tight")])
class _OGroup:
    @staticmethod
    def build(P, tis, window="interval", kind="lax", optional=False, **kw):
        return ps.OrderedTaskGroup(name="cst", list_of_tasks=[t.obj for t in tis], kind=kind, optional=optional, **_group_kwargs(P, window))

    @staticmethod
    def must(P, tis, window="interval", kind="lax", **kw):
        cl = _group_must(P, tis, window)
        for i in range(len(tis) - 1):
            cl.append((f"order_{i}", _cmp(kind, tis[i].e, tis[i + 1].s)))
        return cl


ELEMENTS["OrderedTaskGroup3"] = Element("OrderedTaskGroup3", 3, _OGroup.build, _OGroup.must, None,
                                        [dict(window="interval", kind=k) for k in ("lax", "strict", "tight")])


# --- N tasks in time intervals -------------------------------------------------------------------
def _n_in_intervals_variants(ntasks, nints):
    # n = m+1 is kept for 'max' only: 'min'/'exact' m+1 of m tasks is infeasible by definition
    return [dict(kind=k, n=n, nints=nints) for k in ("min", "max", "exact")
            for n in range(0, ntasks + (2 if k == "max" else 1))]


def _intervals(P, nints):
    return [(P.v(f"c_lo{i}"), P.v(f"c_hi{i}")) for i in range(nints)]


class _NInIntervals:
    @staticmethod
    def build(P, tis, kind="exact", n=1, nints=1, optional=False, **kw):
        ints = [(P.int(f"c_lo{i}", ph=10 * i), P.int(f"c_hi{i}", ph=10 * i + 8)) for i in range(nints)]
        return ps.ScheduleNTasksInTimeIntervals(name="cst", list_of_tasks=[t.obj for t in tis], nb_tasks_to_schedule=n,
                                                list_of_time_intervals=ints, kind=kind, optional=optional)

    @staticmethod
    def must(P, tis, kind="exact", n=1, nints=1, **kw):
        inside = [Or([And(t.s >= lo, t.e <= hi) for lo, hi in _intervals(P, nints)]) for t in tis]
        total = Sum([b2i(And(t.sched, i)) for t, i in zip(tis, inside)])
        cl = [("count", _count(kind, total, n))]
        # a scheduled task never partly overlaps a listed interval (positive-length tasks)
        for ti_, t in enumerate(tis):
            for ii_, (lo, hi) in enumerate(_intervals(P, nints)):
                cl.append((f"no_partial_overlap_{ti_}_{ii_}",
                           Implies(And(t.sched, t.e > t.s), Or(And(t.s >= lo, t.e <= hi), t.e <= lo, t.s >= hi))))
        return cl

    @staticmethod
    def valid(P, tis, kind="exact", n=1, nints=1, **kw):
        """valid beyond dispute: the count relation holds and every task is entirely inside or entirely
        outside each interval (zero-length tasks sitting on a bound are the ambiguous region)"""
        ints = _intervals(P, nints)
        inside = [Or([And(t.s >= lo, t.e <= hi) for lo, hi in ints]) for t in tis]
        total = Sum([b2i(And(t.sched, i)) for t, i in zip(tis, inside)])
        cl = [_count(kind, total, n)]
        for t in tis:
            for lo, hi in ints:
                cl.append(Or(And(t.s >= lo, t.e <= hi, Not(And(t.s == t.e, Or(t.s == lo, t.s == hi)))), t.e < lo, t.s > hi,
                             And(t.e <= lo, t.e > t.s), And(t.s >= hi, t.e > t.s)))
        return And(cl)

    @staticmethod
    def assume(P, nints=1, **kw):
        """interval lists are disjoint and well-formed (lo < hi): overlapping intervals make
        'the interval a task lies in' ambiguous."""
        ints = _intervals(P, nints)
        out = [lo < hi for lo, hi in ints]
        for (l1, h1), (l2, h2) in itertools.combinations(ints, 2):
            out.append(Or(h1 < l2, h2 < l1))
        return out


ELEMENTS["ScheduleNTasksInTimeIntervals"] = Element(
    "ScheduleNTasksInTimeIntervals", 2, _NInIntervals.build, _NInIntervals.must, _NInIntervals.valid,
    _n_in_intervals_variants(2, 1) + [dict(kind=k, n=1, nints=2) for k in ("min", "max", "exact")])
ELEMENTS["ScheduleNTasksInTimeIntervals"].assume = _NInIntervals.assume
ELEMENTS["ScheduleNTasksInTimeIntervals3"] = Element(
    "ScheduleNTasksInTimeIntervals3", 3, _NInIntervals.build, _NInIntervals.must, _NInIntervals.valid,
    [dict(kind=k, n=n, nints=2) for k in ("min", "max", "exact") for n in (1, 2)])
ELEMENTS["ScheduleNTasksInTimeIntervals3"].assume = _NInIntervals.assume
for _n in ("ScheduleNTasksInTimeIntervals", "ScheduleNTasksInTimeIntervals3"):
    ELEMENTS[_n].count_scheduled = True  # the clause itself counts scheduled tasks only


# --- precedence between a task group and a task ------------------------------------------------------
class _PrecedenceGroup:
    """TaskPrecedence accepts a task group on either side: every member of the group is concerned."""

    @staticmethod
    def build(P, tis, kind="lax", side="before", window="interval", ordered=False, optional=False, **kw):
        cls = ps.OrderedTaskGroup if ordered else ps.UnorderedTaskGroup
        g = cls(name="grp", list_of_tasks=[tis[0].obj, tis[1].obj], **_group_kwargs(P, window))
        kwargs = dict(name="cst", kind=kind, offset=P.int("c_offset", ph=1), optional=optional)
        if side == "before":
            return ps.TaskPrecedence(task_before=g, task_after=tis[2].obj, **kwargs)
        return ps.TaskPrecedence(task_before=tis[2].obj, task_after=g, **kwargs)

    @staticmethod
    def must(P, tis, kind="lax", side="before", window="interval", ordered=False, **kw):
        o = P.v("c_offset")
        cl = []
        # lax / strict bind every member; tight binds the group envelope, hence at least the inequality
        k2 = "lax" if kind == "tight" else kind
        for i in (0, 1):
            if side == "before":
                cl.append((f"member_{i}_before", _cmp(k2, tis[i].e + o, tis[2].s)))
            else:
                cl.append((f"member_{i}_after", _cmp(k2, tis[2].e + o, tis[i].s)))
        cl += [(f"group_{n}", c) for n, c in _group_must(P, tis[:2], window)]
        return cl


ELEMENTS["TaskPrecedenceWithGroup"] = Element(
    "TaskPrecedenceWithGroup", 3, _PrecedenceGroup.build, _PrecedenceGroup.must, None,
    [dict(kind=k, side=sd, window=w, ordered=o) for k in ("lax", "strict", "tight") for sd in ("before", "after")
     for w, o in (("interval", False), ("length", False), ("none", True))])
ELEMENTS["TaskPrecedenceWithGroup"].skip_completeness = True
