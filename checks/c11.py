"""C11 - the solution object is a faithful, self-consistent report of one schedule.
The real build_solution() runs on an identity model (the value of a variable is the variable itself,
Booleans are explorer choices consistent with phi_real), so every field of the returned
SchedulingSolution is a z3 term over the schedule variables; the obligations are validity queries under
phi_real, i.e. they hold for EVERY model the solver could hand to build_solution. Calendar arithmetic is
executed on exact symbolic multiples of delta_time. A concrete layer re-validates build_solution against
models produced by the real z3 (incl. delta_time values of a day and more, and sub-second ones)."""
import datetime as dt
import itertools

import z3

import processscheduler as ps

from symx import engine, formula, stubs
from symx.formula import And, Or, Not, Implies
from symx.harness import library_failure, confirm_library_failure, Shape, Ob, Ctx, run_property, quiet
from checks.common import make_task

PROP = "C11"


class SymTime:
    """base + coeff * delta, coeff a z3 integer term (exact: Python datetime arithmetic is exact integer
    microseconds; overflow beyond year 9999 is outside the claim)"""

    def __init__(self, base, coeff, delta):
        self.base, self.coeff, self.delta = base, coeff, delta

    def _units(self, td):
        q, r = divmod(td, self.delta)
        if r != dt.timedelta(0):
            raise ValueError("not a multiple of delta_time")
        return q

    def __add__(self, other):
        if isinstance(other, SymTime):
            if self.base is not None and other.base is not None:
                raise TypeError("datetime + datetime")
            return SymTime(self.base if self.base is not None else other.base, self.coeff + other.coeff, self.delta)
        if isinstance(other, dt.timedelta):
            return SymTime(self.base, self.coeff + self._units(other), self.delta)
        if isinstance(other, dt.datetime):
            if self.base is not None:
                raise TypeError("datetime + datetime")
            return SymTime(other, self.coeff, self.delta)
        return NotImplemented

    __radd__ = __add__


_orig_mul = z3.ArithRef.__mul__
_orig_rmul = z3.ArithRef.__rmul__


def _mul(self, other):
    if isinstance(other, dt.timedelta):
        return SymTime(None, self, other)
    return _orig_mul(self, other)


def _rmul(self, other):
    if isinstance(other, dt.timedelta):
        return SymTime(None, self, other)
    return _orig_rmul(self, other)


REQS = {}  # (task, reported resource) -> how the requirement was declared (filled by declare)


def declare(P, variant, calendar):
    REQS.clear()
    kw = {}
    if calendar in ("delta", "both"):
        kw["delta_time"] = dt.timedelta(hours=36)
    if calendar == "both":
        kw["start_time"] = dt.datetime(2024, 2, 28, 23, 30)
    hz = variant != "no_horizon"
    pb = ps.SchedulingProblem(name="sol", **({"horizon": P.int("hz", ph=30)} if hz else {}), **kw)
    a = make_task(P, "A", "fixed", release=True)
    b = make_task(P, "B", "var", vmin=True, vmax=True, optional=True)
    c = make_task(P, "Z", "zero", optional=(variant == "optional_zero"))
    tis = [a, b, c]
    ws = {}
    reqs = []  # (task, worker name as reported, unit/worker object, how)
    if variant in ("workers", "no_horizon", "optional_zero"):
        w1, w2 = ps.Worker(name="W1"), ps.Worker(name="W2")
        a.obj.add_required_resource(w1, delay_in=P.term("din", ph=1, lo=0), early_out=P.term("eout", ph=0, lo=0))
        b.obj.add_required_resource(ps.SelectWorkers(list_of_workers=[w1, w2], nb_workers_to_select=1))
        c.obj.add_required_resource(w2)
        ws = {"W1": [w1], "W2": [w2]}
        REQS.clear()
        REQS.update({("A", "W1"): ("shifted", P.v("din"), P.v("eout")), ("B", "W1"): ("span",), ("B", "W2"): ("span",), ("Z", "W2"): ("span",)})
    elif variant == "cumulative":
        cw = ps.CumulativeWorker(name="CW", size=2)
        w3 = ps.Worker(name="W3")
        a.obj.add_required_resource(cw)
        b.obj.add_required_resource(cw)
        b.obj.add_required_resource(w3, dynamic=True)
        ws = {"CW": list(cw._cumulative_workers), "W3": [w3]}
        REQS.clear()
        REQS.update({("A", "CW"): ("span",), ("B", "CW"): ("span",), ("B", "W3"): ("inside",)})
    elif variant == "cumulative_in_list":
        # a cumulative worker as one of the alternatives of a selection
        cw = ps.CumulativeWorker(name="CW", size=2)
        w1 = ps.Worker(name="W1")
        a.obj.add_required_resource(ps.SelectWorkers(list_of_workers=[w1, cw], nb_workers_to_select=1))
        b.obj.add_required_resource(ps.SelectWorkers(list_of_workers=[cw, w1], nb_workers_to_select=1))
        ws = {"CW": list(cw._cumulative_workers), "W1": [w1]}
        REQS.clear()
        REQS.update({("A", "CW"): ("span",), ("B", "CW"): ("span",), ("A", "W1"): ("span",), ("B", "W1"): ("span",)})
    elif variant == "buffer_indicator":
        w1 = ps.Worker(name="W1")
        a.obj.add_required_resource(w1)
        buf = ps.NonConcurrentBuffer(name="Buf", initial_level=P.int("b0", ph=5))
        ps.TaskUnloadBuffer(task=a.obj, buffer=buf, quantity=P.int("q1", ph=2))
        ps.TaskLoadBuffer(task=c.obj, buffer=buf, quantity=P.int("q2", ph=1))
        ps.IndicatorResourceUtilization(resource=w1) if False else ps.IndicatorNumberTasksAssigned(resource=w1)
        ws = {"W1": [w1]}
        REQS.clear()
        REQS.update({("A", "W1"): ("span",)})
    return pb, tis, ws


def solution_shape(variant, calendar):
    name = f"solution/{variant}/calendar_{calendar}"

    def build(P):
        pb, tis, ws = declare(P, variant, calendar)
        solver = ps.SchedulingSolver(problem=pb)
        solver.initialize()
        phi = list(solver._solver.assertions())
        ex = P.ex
        ex.context = list(phi)  # Boolean choices made by the model stub must be consistent with phi_real
        model = stubs.IdModel(ex)
        ex.all_sym = True  # build_solution branches on model values: every such branch forks
        z3.ArithRef.__mul__, z3.ArithRef.__rmul__ = _mul, _rmul
        try:
            solution = solver.build_solution(model)
        finally:
            z3.ArithRef.__mul__, z3.ArithRef.__rmul__ = _orig_mul, _orig_rmul
            ex.all_sym = False
            ex.context = []
        return Ctx(problem=pb, tis=tis, ws=ws, solver=solver, phi=phi, solution=solution, model=model, calendar=calendar)

    def obligations(ctx):
        return [Ob(f"{PROP}/{name}/{n}", "custom", fn=f, replayer="checks.c11:replay_solution") for n, f in OBLIGATIONS.items()]

    sh = Shape(name, build, obligations, initialize=False)
    sh.grid = False
    sh.spec = (variant, calendar)
    from symx.harness import crash_obligations
    sh.on_exception = crash_obligations(PROP, name, "checks.c11:replay_crash", "no solution object for a model of the problem")
    # the delayed assignment leaves a non-negative busy span: delay_in + early_out <= duration
    sh.assumptions = lambda P: ([P.v("din") + P.v("eout") <= P.v("A_dur")] if "din" in P.terms else [])
    return sh


def twice_shape(variant):
    """The same solver object builds two solutions in a row (solve then find_another_solution, or
    intermediate states of the optimiser): the second report must be as faithful as the first and must
    not alter the first one."""
    name = f"two_solutions_same_solver/{variant}"

    def build(P):
        import copy

        pb, tis, ws = declare(P, variant, "none")
        solver = ps.SchedulingSolver(problem=pb)
        solver.initialize()
        phi = list(solver._solver.assertions())
        ex = P.ex
        ex.context = list(phi)
        ex.all_sym = True
        try:
            m1 = stubs.IdModel(ex)
            sol1 = solver.build_solution(m1)
            snap = {n: (list(t.assigned_resources), t.scheduled) for n, t in sol1.tasks.items()}
            snap_r = {n: list(r.assignments) for n, r in sol1.resources.items()}
            # second model: the same schedule variables stand for a second, independent model
            m2 = SecondModel(ex)
            sol2 = solver.build_solution(m2)
        finally:
            ex.all_sym = False
            ex.context = []
        return Ctx(problem=pb, tis=tis, ws=ws, solver=solver, phi=phi, solution=sol2, model=m2, calendar="none",
                   first=sol1, snap=snap, snap_r=snap_r, rename=m2.rename)

    def obligations(ctx):
        return [Ob(f"{PROP}/{name}/first_solution_not_altered", "custom", fn=ob_first_unaltered, replayer="checks.c11:replay_twice")]

    sh = Shape(name, build, obligations, initialize=False)
    sh.grid = False
    sh.spec = (variant, "none")
    sh.assumptions = lambda P: ([P.v("din") + P.v("eout") <= P.v("A_dur")] if "din" in P.terms else [])
    return sh


class SecondModel(stubs.IdModel):
    """a second model of the same constraint system: every variable v is read as a renamed copy v'' and
    the copies satisfy phi_real as well"""

    def __init__(self, ex):
        super().__init__(ex)
        self.index = "second"
        self.rename = {}
        renamed, mapping = stubs.rename_problem_constants(list(ex.context), "second")
        self.mapping2 = mapping
        for a in renamed:
            ex.add_assumption(a)

    def _sym(self, var):
        n = var.decl().name()
        if n in self.mapping2:
            return self.mapping2[n]
        s = z3.Bool(f"m@second@{n}") if z3.is_bool(var) else z3.Int(f"m@second@{n}")
        self.mapping2[n] = s
        return s


def ob_first_unaltered(ctx, path):
    """after the second build, the first solution still says what it said; and in the second solution a task
    lists a resource iff that resource lists an assignment for the task"""
    for n, t in ctx.first.tasks.items():
        if (list(t.assigned_resources), t.scheduled) != ctx.snap[n]:
            return _structural(ctx, path, f"first solution altered by the second build: task {n} listed {ctx.snap[n][0]}, now lists {t.assigned_resources}")
    for n, r in ctx.first.resources.items():
        if len(r.assignments) != len(ctx.snap_r[n]):
            return _structural(ctx, path, f"first solution altered by the second build: resource {n}")
    sol2 = ctx.solution
    for n, t in sol2.tasks.items():
        listed = set(t.assigned_resources)
        if len(t.assigned_resources) != len(listed):
            return _structural(ctx, path, f"second solution: task {n} lists duplicates {t.assigned_resources}")
        for rn, r in sol2.resources.items():
            has = any(x[0] == n for x in r.assignments)
            if has != (rn in listed):
                return _structural(ctx, path, f"second solution: task {n} {'lists' if rn in listed else 'does not list'} {rn} while the resource {'has' if has else 'has no'} assignment for it")
        if t.scheduled is False and t.assigned_resources:
            return _structural(ctx, path, f"second solution: unscheduled task {n} lists {t.assigned_resources}")
    return {"status": "unsat", "queries": 0}


def replay_twice(desc):
    """real z3: solve(), then find_another_solution() repeatedly on the same solver; every solution must stay
    self-consistent and earlier ones unchanged"""
    import symx.harness as H
    import copy

    shape = H.get_shape(desc["module"], desc["shape"])
    variant, _ = shape.spec
    w = desc["witness"]
    problems = []
    with quiet():
        P = engine.Params("conc", values=w["params"])
        pb, tis, ws = declare(P, variant, "none")
        solver = ps.SchedulingSolver(problem=pb)
        sol = solver.solve()
        seen = []
        k = 0
        while sol and k < 12:
            seen.append((sol, {n: (list(t.assigned_resources), t.scheduled) for n, t in sol.tasks.items()}))
            for n, t in sol.tasks.items():
                for rn, r in sol.resources.items():
                    has = any(x[0] == n for x in r.assignments)
                    if has != (rn in t.assigned_resources):
                        problems.append(f"solution #{k}: task {n} lists {t.assigned_resources} but resource {rn} {'has' if has else 'has no'} assignment for it")
                if not t.scheduled and t.assigned_resources:
                    problems.append(f"solution #{k}: unscheduled task {n} lists {t.assigned_resources}")
            for j, (s_old, snap) in enumerate(seen[:-1]):
                for n, t in s_old.tasks.items():
                    if (list(t.assigned_resources), t.scheduled) != snap[n]:
                        problems.append(f"solution #{j} was altered when solution #{k} was built: task {n}")
            sol = solver.find_another_solution()
            k += 1
    engine.reset_z3_globals()
    print("replay:", problems[:2], f"({len(seen)} solutions enumerated)")
    if problems:
        print("CONFIRMED: " + problems[0])
        return 1
    return 0


def _valid(ctx, path, goal, what):
    base = [formula.to_z3(x) for x in list(path.assume) + list(path.pc) + list(ctx.extra_assume)] + list(ctx.phi)
    v, m, _ = formula.solve_shrunk(base + [Not(formula.to_z3(goal))], 30000)
    if v == "unsat":
        return None
    if v == "sat":
        consts, _ = formula.constants(base)
        params = {n: (formula.val(m, t) if z3.is_expr(t) else t) for n, t in ctx.P.terms.items()}
        pins = {k: v_ for k, v_ in formula.model_dict(m, consts).items() if not k.startswith(("p_", "__choice")) and "!" not in k}
        return {"status": "sat", "queries": 1, "witness": {"params": params, "pins": pins, "what": what}}
    return {"status": "unknown", "queries": 1, "note": what}


def _sched(ctx, ti):
    ts = ctx.solution.tasks[ti.name]
    return ts.scheduled  # python bool on this path


def ob_task_fields(ctx, path):
    sol = ctx.solution
    for ti in ctx.tis:
        ts = sol.tasks.get(ti.name)
        if ts is None:
            return _structural(ctx, path, f"task {ti.name} missing from the solution")
        flag = ts.scheduled
        if ti.optional:
            # the reported flag is the model's flag
            key = ti.obj._scheduled.decl().name()
            if ctx.model.bools.get(key) is not flag:
                return _structural(ctx, path, f"{ti.name}.scheduled is not the model's value of the scheduled flag")
        elif flag is not True:
            return _structural(ctx, path, f"mandatory task {ti.name} reported as not scheduled")
        if flag:
            r = _valid(ctx, path, formula.to_z3(ts.end) - formula.to_z3(ts.start) == formula.to_z3(ts.duration),
                       f"{ti.name}: end - start != duration")
            if r:
                return r
        for fld, var in (("start", ti.s), ("end", ti.e)):
            r = _valid(ctx, path, formula.to_z3(getattr(ts, fld)) == var, f"{ti.name}.{fld} is not the schedule's {fld}")
            if r:
                return r
        hz = sol.horizon
        if flag:
            r = _valid(ctx, path, formula.to_z3(hz) >= formula.to_z3(ts.end), f"horizon {hz} earlier than the end of {ti.name}")
            if r:
                return r
    return {"status": "unsat", "queries": 3 * len(ctx.tis)}


def _structural(ctx, path, what):
    base = [formula.to_z3(x) for x in list(path.assume) + list(path.pc) + list(ctx.extra_assume)] + list(ctx.phi)
    v, m, _ = formula.solve_shrunk(base, 30000)
    if v != "sat":
        return {"status": "unsat" if v == "unsat" else "unknown", "queries": 1, "note": "path infeasible"}
    consts, _ = formula.constants(base)
    params = {n: (formula.val(m, t) if z3.is_expr(t) else t) for n, t in ctx.P.terms.items()}
    pins = {k: v_ for k, v_ in formula.model_dict(m, consts).items() if not k.startswith(("p_", "__choice")) and "!" not in k}
    return {"status": "sat", "queries": 1, "witness": {"params": params, "pins": pins, "what": what}}


def ob_assignments(ctx, path):
    """task lists resource R <=> R lists an assignment for the task; the interval is the busy interval of
    the requirement; cumulative units are folded under the cumulative worker's name, once; unscheduled tasks
    carry no assignment"""
    sol = ctx.solution
    queries = 0
    for rname, units in ctx.ws.items():
        rs = sol.resources.get(rname)
        if rs is None:
            return _structural(ctx, path, f"resource {rname} missing from the solution")
        for u in units:
            if u.name != rname and u.name in sol.resources:
                return _structural(ctx, path, f"cumulative unit {u.name} reported under its own name")
    for ti in ctx.tis:
        ts = sol.tasks[ti.name]
        listed = set(ts.assigned_resources)
        if len(ts.assigned_resources) != len(listed):
            return _structural(ctx, path, f"{ti.name}.assigned_resources has duplicates: {ts.assigned_resources}")
        for rname, units in ctx.ws.items():
            rs = sol.resources[rname]
            entries = [(n, s, e) for (n, s, e) in rs.assignments if n == ti.name]
            # expected: one entry per unit whose busy interval for this task is non-negative on this path
            exp = []
            for u in units:
                if ti.obj in u._busy_intervals:
                    bs, be = u._busy_intervals[ti.obj]
                    base = [formula.to_z3(x) for x in list(path.assume) + list(path.pc) + list(ctx.extra_assume)] + list(ctx.phi)
                    neg, _, _ = formula.solve(base + [And(bs >= 0, be >= 0)], 20000, want_model=False)
                    pos, _, _ = formula.solve(base + [Not(And(bs >= 0, be >= 0))], 20000, want_model=False)
                    queries += 2
                    if neg == "sat" and pos == "sat":
                        return {"status": "unknown", "note": f"path does not decide whether {u.name} is assigned to {ti.name}"}
                    if neg == "sat":
                        exp.append((bs, be))
            if bool(exp) != (rname in listed):
                return _structural(ctx, path, f"{ti.name} {'does not list' if exp else 'lists'} {rname} while the resource {'has' if exp else 'has no'} assignment for it")
            if bool(exp) != bool(entries):
                return _structural(ctx, path, f"resource {rname} lists {len(entries)} assignments of {ti.name}, expected {len(exp)}")
            if ts.scheduled is False and entries:
                return _structural(ctx, path, f"unscheduled task {ti.name} has assignments on {rname}")
            for (n, s, e) in entries:
                goal = Or([And(formula.to_z3(s) == bs, formula.to_z3(e) == be) for bs, be in exp])
                r = _valid(ctx, path, goal, f"assignment ({n}, {s}, {e}) on {rname} is not a busy interval of the requirement")
                queries += 1
                if r:
                    return r
                how = REQS.get((ti.name, rname))
                if how:
                    sz, ez = formula.to_z3(s), formula.to_z3(e)
                    if how[0] == "span":
                        implied = And(sz == ti.s, ez == ti.e)
                    elif how[0] == "shifted":
                        implied = And(sz == ti.s + how[1], ez == ti.e - how[2])
                    else:
                        implied = And(sz >= ti.s, ez <= ti.e, sz <= ez)
                    r = _valid(ctx, path, implied, f"assignment ({n}, {s}, {e}) on {rname} is not the interval the requirement implies ({how[0]})")
                    queries += 1
                    if r:
                        return r
    return {"status": "unsat", "queries": queries}


def ob_calendar(ctx, path):
    if ctx.calendar == "none":
        return {"status": "unsat", "queries": 0}
    pb = ctx.problem
    for ti in ctx.tis:
        ts = ctx.solution.tasks[ti.name]
        for fld, want_coeff, want_base in (("start_time", ti.s, pb.start_time), ("end_time", ti.e, pb.start_time),
                                           ("duration_time", formula.to_z3(ts.duration), None)):
            val = getattr(ts, fld)
            if isinstance(val, (dt.timedelta, dt.datetime)):
                # concrete value: only possible when the integer value is concrete
                if fld == "duration_time" and not z3.is_expr(ts.duration):
                    if val != ts.duration * pb.delta_time:
                        return _structural(ctx, path, f"{ti.name}.{fld} = {val} != duration * delta_time")
                    continue
                return _structural(ctx, path, f"{ti.name}.{fld} does not depend on the schedule")
            if not isinstance(val, SymTime):
                return _structural(ctx, path, f"{ti.name}.{fld} has unexpected type {type(val).__name__}")
            if val.delta != pb.delta_time or val.base != want_base:
                return _structural(ctx, path, f"{ti.name}.{fld}: base {val.base} / step {val.delta} differ from start_time {want_base} / delta_time")
            if fld == "end_time" and not ts.scheduled:
                continue
            r = _valid(ctx, path, val.coeff == want_coeff, f"{ti.name}.{fld} is start_time + ({val.coeff}) * delta_time, expected ({want_coeff})")
            if r:
                return r
    return {"status": "unsat", "queries": 3 * len(ctx.tis)}


def ob_buffers_indicators(ctx, path):
    sol = ctx.solution
    for ind in ctx.problem.indicators.values():
        got = sol.indicators.get(ind.name)
        if got is None or not formula.to_z3(got).eq(ind._indicator_variable):
            return _structural(ctx, path, f"indicator {ind.name} is not read from its variable")
    for buf in ctx.problem.buffers:
        bs = sol.buffers.get(buf.name)
        if bs is None:
            return _structural(ctx, path, f"buffer {buf.name} missing")
        if len(bs.level) != len(bs.level_change_times) + 1:
            return _structural(ctx, path, "buffer levels / change times lengths inconsistent")
        if not formula.to_z3(bs.level[0]).eq(buf._buffer_levels[0]):
            return _structural(ctx, path, "first reported level is not the initial level")
    return {"status": "unsat", "queries": 0}


OBLIGATIONS = {"task_fields_and_horizon": ob_task_fields, "assignments_consistent": ob_assignments,
               "calendar_times": ob_calendar, "indicators_and_buffers_read_from_model": ob_buffers_indicators}


# ---- concrete layer: real z3 models -------------------------------------------------------------------
DELTAS = [dt.timedelta(minutes=1), dt.timedelta(hours=1), dt.timedelta(hours=36), dt.timedelta(weeks=1),
          dt.timedelta(milliseconds=500), dt.timedelta(days=1, seconds=1)]


def concrete_shape(variant, delta_i, with_start):
    name = f"concrete/{variant}/delta{delta_i}/{'start' if with_start else 'nostart'}"

    def build(P):
        return Ctx(problem=None)

    @library_failure
    def fn(ctx, path):
        problems = check_concrete(variant, DELTAS[delta_i], with_start)
        if problems:
            return {"status": "sat", "queries": 1, "witness": {"params": {}, "pins": {}, "what": problems[0]}}
        return {"status": "unsat", "queries": 1}

    def obligations(ctx):
        return [Ob(f"{PROP}/{name}/solution_matches_real_model", "custom", fn=fn, replayer="checks.c11:replay_concrete")]

    sh = Shape(name, build, obligations, initialize=False)
    sh.grid = False
    sh.spec = (variant, delta_i, with_start)
    return sh


def check_concrete(variant, delta, with_start):
    """solve for real, then recompute every reported field from the z3 model with plain Python"""
    problems = []
    with quiet():
        P = engine.Params("conc", values={"hz": 40, "A_dur": 3, "A_rel": 2, "B_min": 1, "B_max": 4, "din": 1, "eout": 1, "b0": 5, "q1": 2, "q2": 1})
        kw = {"delta_time": delta}
        st = dt.datetime(2024, 2, 28, 23, 30) if with_start else None
        if with_start:
            kw["start_time"] = st
        if variant == "expression_horizon":
            # the horizon is declared as a z3 expression (allowed by the field type) bounded by a user constraint
            uh = z3.Int("user_horizon")
            pb = ps.SchedulingProblem(name="sol", horizon=uh + 2, **kw)
            ps.ConstraintFromExpression(expression=uh <= 38)
        else:
            pb = ps.SchedulingProblem(name="sol", horizon=40, **kw)
        a = ps.FixedDurationTask(name="A", duration=3, release_date=2)
        b = ps.VariableDurationTask(name="B", min_duration=1, max_duration=4, optional=True)
        z = ps.ZeroDurationTask(name="Z", optional=True)
        w1, w2 = ps.Worker(name="W1"), ps.Worker(name="W2")
        a.add_required_resource(w1, delay_in=1, early_out=1)
        b.add_required_resource(ps.SelectWorkers(list_of_workers=[w1, w2], nb_workers_to_select=1))
        if variant == "cumulative":
            cw = ps.CumulativeWorker(name="CW", size=2)
            a.add_required_resource(cw)
            z.add_required_resource(cw)
        ps.TaskStartAt(task=a, value=5)
        ps.OptionalTaskForceSchedule(task=b, to_be_scheduled=(variant != "b_unscheduled"))
        solver = ps.SchedulingSolver(problem=pb)
        sol = solver.solve()
    engine.reset_z3_globals()
    if not sol:
        return ["concrete instance unexpectedly infeasible"]
    m = solver._model
    ival = lambda v: m.eval(v, model_completion=True).as_long()
    for t in (a, b, z):
        ts = sol.tasks[t.name]
        s, e = ival(t._start), ival(t._end)
        sched = True if t._scheduled is True else z3.is_true(m.eval(t._scheduled, model_completion=True))
        if (ts.start, ts.end, ts.scheduled) != (s, e, sched):
            problems.append(f"{t.name}: reported {(ts.start, ts.end, ts.scheduled)} but the model says {(s, e, sched)}")
        if sched and ts.end - ts.start != ts.duration:
            problems.append(f"{t.name}: end - start != duration")
        base = st if st is not None else None
        exp_start = (base + s * delta) if base is not None else s * delta
        exp_dur = ts.duration * delta
        if ts.start_time != exp_start:
            problems.append(f"{t.name}.start_time = {ts.start_time}, expected {exp_start} (start {s}, delta_time {delta})")
        if ts.duration_time != exp_dur:
            problems.append(f"{t.name}.duration_time = {ts.duration_time}, expected {exp_dur}")
        if sched and ts.end_time != ((base + e * delta) if base is not None else e * delta):
            problems.append(f"{t.name}.end_time = {ts.end_time}, expected start_time + {e} * delta_time")
        for w in pb.workers.values():
            rname = w.name.split("_CumulativeWorker_")[0]
            if t in w._busy_intervals:
                bs, be = ival(w._busy_intervals[t][0]), ival(w._busy_intervals[t][1])
                entries = [x for x in sol.resources[rname].assignments if x[0] == t.name]
                if bs >= 0 and be >= 0:
                    if (t.name, bs, be) not in entries or rname not in ts.assigned_resources:
                        problems.append(f"assignment of {t.name} on {rname} [{bs},{be}] not reported consistently: {entries} / {ts.assigned_resources}")
        for rname in ts.assigned_resources:
            if not [x for x in sol.resources[rname].assignments if x[0] == t.name]:
                problems.append(f"{t.name} lists {rname} but {rname} has no assignment for it")
        if not sched and ts.assigned_resources:
            problems.append(f"unscheduled {t.name} has assigned resources {ts.assigned_resources}")
        if not isinstance(sol.horizon, int):
            problems.append(f"the reported horizon is not a number: {sol.horizon!r}")
        elif sched and sol.horizon < ts.end:
            problems.append("horizon earlier than a task end")
    try:
        import json as _json
        _json.loads(sol.to_json())
    except Exception as e:
        problems.append(f"the solution cannot be exported to JSON: {type(e).__name__}: {str(e)[:120]}")
    return problems


@confirm_library_failure
def replay_concrete(desc):
    import symx.harness as H

    shape = H.get_shape(desc["module"], desc["shape"])
    variant, delta_i, with_start = shape.spec
    problems = check_concrete(variant, DELTAS[delta_i], with_start)
    print("replay:", problems[:3])
    if problems:
        print("CONFIRMED: " + problems[0])
        return 1
    return 0


def replay_crash(desc):
    """the same layout at the witness parameters, through the public API and the real solver"""
    import symx.harness as H

    shape = H.get_shape(desc["module"], desc["shape"])
    variant, calendar = shape.spec
    w = desc["witness"]
    try:
        with quiet():
            pb, tis, ws = declare(engine.Params("conc", values=w["params"]), variant, calendar)
            sol = ps.SchedulingSolver(problem=pb).solve()
    except Exception as e:
        if H.raised_by_library(e):
            print(f"CONFIRMED: solve() raised {type(e).__name__}: {str(e)[:200]} on a well-formed problem")
            return 1
        raise
    finally:
        engine.reset_z3_globals()
    print(f"replay: solve() returned {'a solution' if sol else sol}")
    return 0


def replay_solution(desc):
    """Real z3, no stub: the concrete problem with the witness schedule pinned; every field of the returned
    solution is recomputed from the z3 model in plain Python."""
    import symx.harness as H

    shape = H.get_shape(desc["module"], desc["shape"])
    variant, calendar = shape.spec
    w = desc["witness"]
    P = engine.Params("conc", values=w["params"])
    problems = []
    with quiet():
        pb, tis, ws = declare(P, variant, calendar)
        k = 0
        for n, v in w["pins"].items():
            if "!" in n:
                continue
            e = (z3.Bool(n) == z3.BoolVal(v)) if isinstance(v, bool) else (z3.Int(n) == v)
            ps.ConstraintFromExpression(name=f"pin{k}", expression=e)
            k += 1
        solver = ps.SchedulingSolver(problem=pb)
        sol = solver.solve()
    engine.reset_z3_globals()
    if not sol:
        print("replay: pinned schedule not admitted")
        return 0
    m = solver._model
    ival = lambda v: m.eval(v, model_completion=True).as_long()
    for ti in tis:
        ts = sol.tasks[ti.name]
        s, e = ival(ti.s), ival(ti.e)
        sched = True if ti.obj._scheduled is True else z3.is_true(m.eval(ti.obj._scheduled, model_completion=True))
        if (ts.start, ts.end, ts.scheduled) != (s, e, sched):
            problems.append(f"{ti.name}: reported {(ts.start, ts.end, ts.scheduled)} vs model {(s, e, sched)}")
        if sched and ts.end - ts.start != ts.duration:
            problems.append(f"{ti.name}: end - start != duration ({ts.start}, {ts.end}, {ts.duration})")
        if pb.delta_time is not None:
            base = pb.start_time
            exp = (base + s * pb.delta_time) if base is not None else s * pb.delta_time
            if ts.start_time != exp:
                problems.append(f"{ti.name}.start_time {ts.start_time} != {exp}")
            if ts.duration_time != ts.duration * pb.delta_time:
                problems.append(f"{ti.name}.duration_time {ts.duration_time} != {ts.duration * pb.delta_time}")
        for rname, units in ws.items():
            entries = [x for x in sol.resources[rname].assignments if x[0] == ti.name]
            exp_e = []
            for u in units:
                if ti.obj in u._busy_intervals:
                    bs, be = ival(u._busy_intervals[ti.obj][0]), ival(u._busy_intervals[ti.obj][1])
                    if bs >= 0 and be >= 0:
                        exp_e.append((ti.name, bs, be))
            if sorted(set(exp_e)) != sorted(entries) or (bool(exp_e) != (rname in ts.assigned_resources)):
                problems.append(f"{ti.name} on {rname}: reported {entries} / listed {rname in ts.assigned_resources}, model implies {exp_e}")
            how = REQS.get((ti.name, rname))
            for (n_, s_, e_) in entries:
                if how and how[0] == "span" and (s_, e_) != (s, e):
                    problems.append(f"{ti.name} on {rname}: assignment [{s_},{e_}] is not the task span [{s},{e}]")
                if how and how[0] == "shifted" and (s_, e_) != (s + how[1], e - how[2]):
                    problems.append(f"{ti.name} on {rname}: assignment [{s_},{e_}] is not [start+delay_in, end-early_out] = [{s + how[1]},{e - how[2]}]")
                if how and how[0] == "inside" and not (s <= s_ <= e_ <= e):
                    problems.append(f"{ti.name} on {rname}: dynamic assignment [{s_},{e_}] not inside the task span [{s},{e}]")
        if sched and sol.horizon < ts.end:
            problems.append("horizon earlier than a task end")
    print("replay:", problems[:3])
    if problems:
        print("CONFIRMED: " + problems[0])
        return 1
    return 0


def shapes(tier):
    out = []
    for variant in ("plain", "workers", "cumulative", "buffer_indicator", "no_horizon", "optional_zero"):
        for cal in ("none", "delta", "both"):
            if tier == "quick" and cal == "delta" and variant not in ("plain", "workers"):
                continue
            out.append(solution_shape(variant, cal))
    out.append(solution_shape("cumulative_in_list", "none"))
    for variant in (("workers", "cumulative") if tier == "thorough" else ("workers",)):
        out.append(twice_shape(variant))
    out.append(concrete_shape("expression_horizon", 1, True))
    out.append(concrete_shape("expression_horizon", 0, False))
    for variant in ("scheduled", "b_unscheduled", "cumulative"):
        for di in range(len(DELTAS)):
            for ws in (True, False):
                if tier == "quick" and (di + ws) % 2 and variant != "scheduled":
                    continue
                out.append(concrete_shape(variant, di, ws))
    return out


def main(tier):
    return run_property(
        PROP, "checks.c11", tier, "model_checking",
        assumptions=[
            "identity model: model[v] is v itself, Boolean values are explorer choices consistent with phi_real; hence obligations quantify over every model of phi_real",
            "calendar arithmetic: exact symbolic multiples of delta_time (Python datetime is exact integer microseconds; year > 9999 overflow outside the claim); the symbolic layer uses delta_time = 36 h, the concrete layer 1 min .. 1 week and sub-second steps",
            "shapes: three tasks (fixed with release date and delayed assignment, optional variable, zero duration) with workers, a selection, a cumulative worker with a dynamic worker, a buffer and an indicator",
            "concrete layer: models produced by the real z3 (trace validation, not the deciding step)",
        ])
