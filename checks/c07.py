"""C07 - optimisation. The real solve() / _solve_optimize_incremental / create_objective /
build_equivalent_weighted_objective run against a nondeterministic solver stub constrained only by
z3's contract; every verdict sequence up to the bound, every symbolic model value, every clock
script and max_iter setting is a path. Q-trace obligations per path:
  pushed bounds are strict improvements on the incumbent in the objective's direction; the model
  handed to build_solution is the last sat model and no worse than any earlier one; an exit that
  claims the optimum is justified by the contract (unsat with incumbent / declared bound reached)."""
import itertools
import warnings

import z3

import processscheduler as ps

from symx import engine, formula, stubs
from symx.formula import And, Or, Not, Implies, Sum
from symx.harness import Shape, Ob, Ctx, run_property, quiet
from checks.common import make_task

PROP = "C07"


def declare_problem(P, objective, weights=None):
    """two tasks, a precedence, a symbolic horizon; `objective` selects the declared objective(s)"""
    pb = ps.SchedulingProblem(name="opt", horizon=P.int("hz", ph=30))
    a = make_task(P, "A", "fixed")
    b = make_task(P, "B", "var", vmin=True, vmax=True)
    if objective == "makespan_either_order":
        # the precedences are only operands of a connective: none of them is a rule of its own
        ps.Or(list_of_constraints=[ps.TaskPrecedence(task_before=a.obj, task_after=b.obj, offset=P.int("off", ph=1)),
                                   ps.TaskStartAt(task=a.obj, value=P.int("a_at", ph=1))])
        objective = "makespan"
    else:
        ps.TaskPrecedence(task_before=a.obj, task_after=b.obj, offset=P.int("off", ph=1))
    objs = []
    if objective == "makespan":
        objs.append(ps.ObjectiveMinimizeMakespan())
    elif objective == "flowtime":
        objs.append(ps.ObjectiveMinimizeFlowtime())
    elif objective == "start_latest":
        objs.append(ps.ObjectiveTasksStartLatest())
    elif objective in ("min_bounded", "max_bounded"):
        ind = ps.IndicatorFromMathExpression(name="slack", expression=b.s - a.e, bounds=(P.int("b_lo", ph=0), P.int("b_hi", ph=9)))
        cls = ps.ObjectiveMinimizeIndicator if objective == "min_bounded" else ps.ObjectiveMaximizeIndicator
        objs.append(cls(target=ind, weight=1))
        objs[-1]._user_promised_bounds = True
    elif objective == "min_cost":
        # a built-in indicator on a worker that pays back: the cheapest schedule costs less than nothing
        free = ps.Worker(name="Free")
        paid = ps.Worker(name="Paid", cost=ps.ConstantFunction(value=-2))  # (a constant keeps the traces linear)
        b.obj.add_required_resource(ps.SelectWorkers(list_of_workers=[free, paid], nb_workers_to_select=1))
        objs.append(ps.ObjectiveMinimizeResourceCost(list_of_resources=[free, paid]))
    elif objective == "max_utilization":
        w = ps.Worker(name="W")
        b.obj.add_required_resource(w)
        objs.append(ps.ObjectiveMaximizeResourceUtilization(resource=w))
    elif objective in ("min_user", "max_user"):
        ind = ps.IndicatorFromMathExpression(name="user", expression=2 * a.s + b.e)
        cls = ps.ObjectiveMinimizeIndicator if objective == "min_user" else ps.ObjectiveMaximizeIndicator
        objs.append(cls(target=ind, weight=1))
    elif objective in ("weighted_min", "weighted_max"):
        i1 = ps.IndicatorFromMathExpression(name="ia", expression=a.e)
        i2 = ps.IndicatorFromMathExpression(name="ib", expression=b.e - b.s)
        cls = ps.ObjectiveMinimizeIndicator if objective == "weighted_min" else ps.ObjectiveMaximizeIndicator
        w1, w2 = weights
        wa = P.int("w1", ph=1, lo=0, hi=5) if w1 == "sym" else w1
        wb = P.int("w2", ph=2, lo=0, hi=5) if w2 == "sym" else w2
        objs.append(cls(target=i1, weight=wa))
        objs.append(cls(target=i2, weight=wb))
        # the weights as declared by the user (not read back from the objects)
        objs[0]._declared_weight = P.v("w1") if w1 == "sym" else w1
        objs[1]._declared_weight = P.v("w2") if w2 == "sym" else w2
    elif objective in ("weighted_min_default_weights", "weighted_max_default_weights"):
        # no weight given: the documented default is 1 for every objective
        i1 = ps.IndicatorFromMathExpression(name="ia", expression=a.e)
        i2 = ps.IndicatorFromMathExpression(name="ib", expression=b.e - b.s)
        cls = ps.ObjectiveMinimizeIndicator if objective.startswith("weighted_min") else ps.ObjectiveMaximizeIndicator
        objs.append(cls(target=i1))
        objs.append(cls(target=i2))
        objs[0]._declared_weight = objs[1]._declared_weight = 1
    elif objective == "weighted_builtin_late":
        # built-in objectives take no weight argument: the public field is assigned after creation
        objs.append(ps.ObjectiveMinimizeMakespan())
        objs.append(ps.ObjectiveMinimizeFlowtime())
        w1, w2 = weights
        objs[0].weight = P.term("w1", ph=5, lo=0, hi=6) if w1 == "sym" else w1
        objs[1].weight = P.term("w2", ph=2, lo=0, hi=6) if w2 == "sym" else w2
        objs[0]._declared_weight = P.v("w1") if w1 == "sym" else w1
        objs[1]._declared_weight = P.v("w2") if w2 == "sym" else w2
    elif objective in ("weighted_bounded_first", "weighted_bounded_last"):
        # one component carries declared bounds, the other none: the bounds say nothing about the sum
        bounded = ps.IndicatorFromMathExpression(name="sa", expression=a.s, bounds=(P.int("b_lo", ph=0), P.int("b_hi", ph=3)))
        free = ps.IndicatorFromMathExpression(name="sb", expression=b.s)
        order = [bounded, free] if objective == "weighted_bounded_first" else [free, bounded]
        for ind in order:
            objs.append(ps.ObjectiveMaximizeIndicator(target=ind, weight=1))
            objs[-1]._declared_weight = 1
            objs[-1]._user_promised_bounds = ind is bounded
    return pb, a, b, objs


def trace_shape(objective, cfg, slow_at=(), ramp=False, max_checks=5, weights=None, prop=None, only=None, prefix="trace"):
    """prop / only / prefix: the same traces serve C15 (optimisers and options agree on the optimum)"""
    tag = ",".join(f"{k}={v}" for k, v in sorted(cfg.items())) or "default"
    name = f"{prefix}/{objective}/{tag}/clock_{'ramp' if ramp else ('slow' + ''.join(map(str, slow_at)) if slow_at else 'fast')}"
    if weights:
        name += f"/w_{weights[0]}_{weights[1]}"

    def build(P):
        pb, a, b, objs = declare_problem(P, objective, weights)
        holder = {}
        import processscheduler.solution as pssol
        saved_dump = pssol.SchedulingSolution.to_json_file
        if cfg.get("save_intermediate_states"):
            # environment stub: the intermediate solutions are built by the real code, only the file writing is cut
            pssol.SchedulingSolution.to_json_file = lambda self_, fn, compact=False: True
        try:
            with warnings.catch_warnings():
                warnings.simplefilter("ignore")
                with stubs.stubbed(P.ex, max_checks=max_checks, slow_at=slow_at, holder=holder) as (solvers, proxy):
                    if ramp:
                        holder["clock"].slow_at = set(range(10))
                        holder["clock"].slow = 4.0  # 4, 8, 12, 16 ... : the extrapolated next total exceeds max_time
                    solver = ps.SchedulingSolver(problem=pb, **cfg)
                    result = solver.solve()
        finally:
            pssol.SchedulingSolution.to_json_file = saved_dump
        return Ctx(problem=pb, a=a, b=b, objs=objs, solver=solver, stub=solvers[0], result=result, proxy=proxy, cfg=cfg,
                   shape_slow=bool(slow_at), shape_ramp=ramp)

    def obligations(ctx):
        return [Ob(f"{prop or PROP}/{name}/{n}", "custom", fn=f, replayer="checks.c07:replay_trace") for n, f in TRACE_OBLIGATIONS.items()
                if only is None or n in only]

    sh = Shape(name, build, obligations, initialize=False)
    sh.grid = False
    sh.trace = dict(objective=objective, cfg=cfg, slow_at=slow_at, ramp=ramp)
    sh.weights = weights
    return sh


# ---- helpers on a finished path -------------------------------------------------------------------
def _info(ctx):
    stub = ctx.stub
    sats = [c for c in stub.checks if c["verdict"] == z3.sat]
    kind = None
    tgt = None
    if ctx.solver._objective is not None:
        kind = ctx.solver._objective.kind
        tgt = ctx.solver._objective._target
    elif ctx.objs:
        kind, tgt = ctx.objs[0].kind, ctx.objs[0]._target
    return stub, sats, kind, tgt


def _decide(path, ctx, negated_goal, timeout=30000):
    base = [formula.to_z3(x) for x in list(path.assume) + list(path.pc)]
    goal = list(negated_goal)
    # debug mode: every assertion is tracked by a literal that z3 assumes at check() time
    from symx.harness import tracking_literals
    v, m, _ = formula.solve(base + goal + tracking_literals([g for g in goal if z3.is_expr(g)]), timeout)
    return v, m


def _witness(ctx, m, what):
    """concrete parameters, verdict sequence and planned objective values of the counterexample path"""
    stub, sats, kind, tgt = _info(ctx)
    P = ctx.P
    params = {n: (formula.val(m, t) if z3.is_expr(t) else t) for n, t in P.terms.items()}
    values = []
    for srec in sats:
        sym = srec["model"].mapping.get(tgt.decl().name()) if tgt is not None else None
        values.append(formula.val(m, sym) if sym is not None else None)
    return {"params": params, "pins": {}, "verdicts": [str(c["verdict"]) for c in stub.checks], "values": values,
            "what": what, "trace": _trace(ctx)}


def _result(v, m, what, ctx):
    if v == "unsat":
        return {"status": "unsat", "queries": 1}
    if v == "sat":
        return {"status": "sat", "queries": 1, "witness": _witness(ctx, m, what)}
    return {"status": "unknown", "queries": 1}


def _structural(path, ctx, what):
    """a structural mismatch on a feasible path: any model of the path condition is a witness"""
    v, m = _decide(path, ctx, [])
    if v == "sat":
        return {"status": "sat", "queries": 1, "witness": _witness(ctx, m, what)}
    return {"status": "unsat" if v == "unsat" else "unknown", "queries": 1, "note": "path infeasible" if v == "unsat" else ""}


def _trace(ctx):
    return [c[0] + (":" + str(c[1]) if c[0] in ("check", "push", "pop") else "") for c in ctx.stub.calls]


def ob_pushed_bounds(ctx, path):
    """every frame pushed by the incremental optimiser holds exactly `target < incumbent` (minimise)
    resp. `target > incumbent` (maximise)"""
    stub, sats, kind, tgt = _info(ctx)
    if ctx.cfg.get("optimizer") == "optimize" or not stub.checks:
        return {"status": "unsat", "queries": 0, "note": "n/a"}
    frames = stub.checks[-1]["frames"] if stub.checks else stub.frames
    frames = stub.frames if len(stub.frames) >= len(frames) else frames
    queries = 0
    for j, frame in enumerate(frames[1:]):
        if j >= len(sats):
            return _structural(path, ctx, f"frame {j + 1} pushed without a preceding sat model: {_trace(ctx)}")
        val = sats[j]["model"].values.get(tgt.decl().name())
        if val is None:
            return _structural(path, ctx, "objective value was never read from the model")
        spec = tgt < val if kind == "minimize" else tgt > val
        got = And(frame) if frame else z3.BoolVal(True)
        v, m = _decide(path, ctx, [z3.Xor(got, spec)])
        queries += 1
        if v != "unsat":
            r = _result(v, m, f"pushed frame {j + 1} is {frame}, expected {spec}", ctx)
            return r
    return {"status": "unsat", "queries": queries}


def ob_returned_model(ctx, path):
    """solve() returns False iff no model was found, else a solution built from the LAST sat model"""
    stub, sats, kind, tgt = _info(ctx)
    if not sats:
        ok = ctx.result is False
        return {"status": "unsat", "queries": 0} if ok else _structural(path, ctx, f"no sat verdict but solve() returned {type(ctx.result).__name__}")
    if ctx.result is False:
        last = stub.checks[-1]["verdict"]
        if ctx.cfg.get("optimizer") == "optimize" and last != z3.sat:
            return {"status": "unsat", "queries": 0}
        return _structural(path, ctx, f"a model was found but solve() returned False: {_trace(ctx)}")
    last_model = sats[-1]["model"]
    if ctx.solver._model is not last_model:
        return _structural(path, ctx, f"the model kept by the solver is not the last sat model: {_trace(ctx)}")
    for t in (ctx.a, ctx.b):
        ts = ctx.result.tasks[t.name]
        want_s, want_e = last_model.mapping.get(t.s.decl().name()), last_model.mapping.get(t.e.decl().name())
        if not (z3.is_expr(ts.start) and ts.start.eq(want_s) and ts.end.eq(want_e)):
            return _structural(path, ctx, f"solution of task {t.name} is not read from the last sat model")
    return {"status": "unsat", "queries": 0}


def ob_no_worse(ctx, path):
    """the returned objective value is no worse than that of every model found before"""
    stub, sats, kind, tgt = _info(ctx)
    if len(sats) < 2 or tgt is None or ctx.cfg.get("optimizer") == "optimize":
        return {"status": "unsat", "queries": 0}
    name = tgt.decl().name()
    last = sats[-1]["model"].mapping.get(name)
    queries = 0
    for s in sats[:-1]:
        prev = s["model"].mapping.get(name)
        goal = last <= prev if kind == "minimize" else last >= prev
        v, m = _decide(path, ctx, [Not(goal)])
        queries += 1
        if v != "unsat":
            return _result(v, m, f"returned value {last} may be worse than earlier value {prev}", ctx)
    return {"status": "unsat", "queries": queries}


def _exit_kind(ctx):
    stub, sats, kind, tgt = _info(ctx)
    if not stub.checks:
        return "none"
    last = stub.checks[-1]
    if last["verdict"] == z3.unsat:
        return "unsat_with_incumbent" if sats else "infeasible"
    if last["verdict"] == z3.unknown:
        return "unknown"
    pushes = sum(1 for c in stub.calls if c[0] == "push")
    if pushes >= len(sats):
        return "max_iter_or_cut"
    k = len(stub.checks) - 1
    tr = ctx.__dict__.get("trace_cfg", {})
    return "after_sat_without_push"


def ob_optimum_claims(ctx, path):
    """exit through 'unsat with incumbent': no schedule satisfying the base rules has a better value.
    exit right after a sat model with a fast clock and no iteration limit hit: the declared bound of the
    objective's direction was reached."""
    stub, sats, kind, tgt = _info(ctx)
    if ctx.cfg.get("optimizer") == "optimize" or tgt is None or not sats:
        return {"status": "unsat", "queries": 0}
    ek = _exit_kind(ctx)
    name = tgt.decl().name()
    m_last = sats[-1]["model"].mapping.get(name)
    if ek == "unsat_with_incumbent":
        final = stub.checks[-1]
        base = final["frames"][0]
        pushed = [a for f in final["frames"][1:] for a in f]
        better = tgt < m_last if kind == "minimize" else tgt > m_last
        # a base-feasible, strictly better schedule would satisfy the whole (unsat) stack
        v, m = _decide(path, ctx, list(base) + [better, Not(And(pushed))])
        return _result(v, m, "the final unsat stack does not cover every strictly better schedule", ctx)
    if ek == "after_sat_without_push" and not ctx.shape_slow and not ctx.shape_ramp:
        # whatever made the loop stop here (a declared bound, a bound the solver computed for itself), the claim "this is
        # the optimum" is justified iff no base-feasible schedule is strictly better
        bounds = ctx.solver._objective._bounds
        want = None if bounds is None else (bounds[0] if kind == "minimize" else bounds[1])
        # violated iff the loop stops here although a strictly better base-feasible schedule exists
        # (the declared bounds being valid for every schedule: the user's promise)
        base0 = stub.checks[-1]["frames"][0]
        copy, mp = stubs.rename_problem_constants(list(base0), "better")
        t2 = mp.get(name)
        if t2 is None:
            return {"status": "unknown", "note": "objective target not in the base stack"}
        better = t2 < m_last if kind == "minimize" else t2 > m_last
        # the user's promise: the bounds the USER declared on an indicator hold for every schedule; the bounds a built-in
        # indicator declares for itself are not taken on trust (the constraint system itself must imply them)
        promised = []
        for o in ctx.objs:
            if o._bounds is not None and getattr(o, "_user_promised_bounds", False):
                tcopy = mp.get(o._target.decl().name())
                if tcopy is not None:
                    promised += [tcopy >= formula.to_z3(o._bounds[0]), tcopy <= formula.to_z3(o._bounds[1])]
        v, m = _decide(path, ctx, copy + [better] + promised)
        return _result(v, m, f"stopped claiming the optimum at {m_last} although a strictly better schedule exists (bound of the {kind} direction handed to the loop: {want})", ctx)
    return {"status": "unsat", "queries": 0}


def ob_wiring(ctx, path):
    """the optimised target is the declared objective (or the weighted sum of the declared objectives,
    all of the same direction); the built-in optimiser gets minimize/maximize according to kind"""
    stub, sats, kind, tgt = _info(ctx)
    base = stub.frames[0]
    objs = ctx.objs
    if ctx.cfg.get("optimizer") == "optimize" and (len(objs) == 1 or ctx.cfg.get("optimize_priority", "pareto") != "weight"):
        want = [(o.kind, o._target) for o in objs]
        got = stub.objectives
        ok = len(want) == len(got) and all(w[0] == g[0] and w[1].eq(g[1]) for w, g in zip(want, got))
        return {"status": "unsat", "queries": 0} if ok else _structural(path, ctx, f"Optimize objectives {got} != declared {want}")
    if tgt is None:
        return _structural(path, ctx, "no objective target")
    if kind != objs[-1].kind or any(o.kind != kind for o in objs):
        return _structural(path, ctx, f"direction {kind} differs from the declared objectives")
    spec = Sum([formula.to_z3(o._declared_weight) * o._target for o in objs]) if len(objs) > 1 else objs[0]._target
    v, m = _decide(path, ctx, list(base) + [tgt != spec])
    return _result(v, m, f"optimised target {tgt} is not the (weighted sum of the) declared objective(s)", ctx)


TRACE_OBLIGATIONS = {
    "pushed_is_strict_improvement": ob_pushed_bounds,
    "returns_last_sat_model": ob_returned_model,
    "no_worse_than_earlier": ob_no_worse,
    "optimum_claim_justified": ob_optimum_claims,
    "objective_wiring": ob_wiring,
}


def shapes(tier):
    out = []
    thorough = tier == "thorough"
    K = 7 if thorough else 5
    objectives = ["makespan", "flowtime", "start_latest", "min_bounded", "max_bounded", "min_user", "max_user", "min_cost", "max_utilization", "makespan_either_order"]
    for obj in objectives:
        iters = [None, 1, 2, 3] + ([4, 5] if thorough else [])
        for mi in iters:
            cfg = {} if mi is None else {"max_iter": mi}
            out.append(trace_shape(obj, cfg, max_checks=K))
        out.append(trace_shape(obj, {}, slow_at=(0,), max_checks=K))
        out.append(trace_shape(obj, {}, slow_at=(1,), max_checks=K))
        out.append(trace_shape(obj, {}, ramp=True, max_checks=K))
        out.append(trace_shape(obj, {"optimizer": "optimize"}, max_checks=2))
        out.append(trace_shape(obj, {"max_time": 5.5, "max_iter": 2}, slow_at=(1,), max_checks=K))
        if obj in ("makespan", "max_bounded", "min_cost") or thorough:
            out.append(trace_shape(obj, {"save_intermediate_states": True}, max_checks=K))
    for wobj in ("weighted_min", "weighted_max"):
        for weights in [("sym", "sym"), (0, 1), (1, 0), (2, 3)]:
            out.append(trace_shape(wobj, {}, weights=weights, max_checks=4))
            out.append(trace_shape(wobj, {"optimizer": "optimize", "optimize_priority": "weight"}, weights=weights, max_checks=2))
        for prio in ("lex", "box", "pareto"):
            out.append(trace_shape(wobj, {"optimizer": "optimize", "optimize_priority": prio}, weights=(1, 1), max_checks=2))
    for weights in [("sym", "sym"), (5, 2), (0, 3)]:
        out.append(trace_shape("weighted_builtin_late", {}, weights=weights, max_checks=4))
        out.append(trace_shape("weighted_builtin_late", {"optimizer": "optimize", "optimize_priority": "weight"}, weights=weights, max_checks=2))
    for wobj in ("weighted_min_default_weights", "weighted_max_default_weights"):
        out.append(trace_shape(wobj, {}, max_checks=4))
        out.append(trace_shape(wobj, {"optimizer": "optimize", "optimize_priority": "weight"}, max_checks=2))
    for wobj in ("weighted_bounded_first", "weighted_bounded_last"):
        out.append(trace_shape(wobj, {}, max_checks=K))
        out.append(trace_shape(wobj, {"max_iter": 2}, max_checks=K))
    for sh in out:
        pass
    return out


def main(tier):
    return run_property(
        PROP, "checks.c07", tier, "model_checking",
        assumptions=[
            "solver stub contract: sat => the model satisfies every assertion on the stack; unsat => the stack has no model; Optimize.check() returns an optimum of the registered objectives (z3 trusted)",
            "bound: at most 5 (thorough 7) check() calls per solve(); max_iter in {unset, 1..3 (5)}; clock scripts: fast, one slow check (0 or 1), quadratic ramp",
            "objectives of one common direction only (mixed directions are outside the property)",
            "the bounds of a bounded indicator hold for every schedule (proved for built-in indicators in C08; user-declared bounds are the user's promise)",
            "problems without resources/optional tasks (build_solution's other branches are the subject of C11)",
        ],
        post=None)


# ---- replay: the real code with the REAL z3 behind a steering shim ----------------------------------
class SteeredSolver:
    """Wraps a genuine z3 solver. check() number k is steered towards the counterexample's k-th verdict:
    a planned `sat` with objective value v is realised by a real check under the temporary constraint
    target == v (a legitimate answer of a contract-abiding solver: a genuine model of the stack);
    a planned `unknown` is returned as such (a solver may always give up); a planned `unsat` is only
    honoured if the real solver agrees. Everything else is delegated to the real solver."""

    def __init__(self, real, plan, target_getter, log):
        self._real, self._plan, self._tg, self._log = real, plan, target_getter, log
        self._k = 0
        self._model = None

    def check(self, *a):
        k = self._k
        self._k += 1
        verdicts, values = self._plan
        want = verdicts[k] if k < len(verdicts) else None
        tgt = self._tg()
        sat_index = sum(1 for v in verdicts[:k] if v == "sat")
        if want == "unknown":
            self._log.append((k, "unknown (planned)"))
            return z3.unknown
        if want == "sat" and tgt is not None and sat_index < len(values) and values[sat_index] is not None:
            self._real.push()
            self._real.add(tgt == values[sat_index])
            r = self._real.check()
            if r == z3.sat:
                self._model = self._real.model()
                self._real.pop()
                self._log.append((k, f"sat steered to {values[sat_index]}"))
                return r
            self._real.pop()
        r = self._real.check()
        self._model = self._real.model() if r == z3.sat else None
        self._log.append((k, f"{r} (real, planned {want})"))
        return r

    def model(self):
        return self._model

    def __getattr__(self, n):
        return getattr(self._real, n)


def replay_trace(desc):
    import io
    import contextlib
    import processscheduler.solver as pss
    import symx.harness as H

    shape = H.get_shape(desc["module"], desc["shape"])
    w = desc["witness"]
    tr = shape.trace
    P = engine.Params("conc", values=w["params"])
    log = []
    holder = {}

    class Proxy:
        def _wrap(self, real):
            return SteeredSolver(real, (w["verdicts"], w["values"]), lambda: holder["solver"]._objective._target if holder["solver"]._objective is not None else None, log)

        def Solver(self, *a, **kw):
            return self._wrap(z3.Solver(*a, **kw))

        def SolverFor(self, *a, **kw):
            return self._wrap(z3.SolverFor(*a, **kw))

        def __getattr__(self, n):
            return getattr(z3, n)

    out = io.StringIO()
    with contextlib.redirect_stdout(out), warnings.catch_warnings():
        warnings.simplefilter("ignore")
        pb, a, b, objs = declare_problem(P, tr["objective"], getattr(shape, "weights", None))
        rcfg = dict(tr["cfg"])
        if rcfg.get("save_intermediate_states"):
            import tempfile
            rcfg["save_intermediate_states_path"] = tempfile.mkdtemp(prefix="c07r_")
        solver = ps.SchedulingSolver(problem=pb, **rcfg)
        holder["solver"] = solver
        saved = pss.z3
        if tr["cfg"].get("optimizer") != "optimize":
            pss.z3 = Proxy()
        try:
            result = solver.solve()
        finally:
            pss.z3 = saved
    engine.reset_z3_globals()
    if rcfg.get("save_intermediate_states_path"):
        import shutil
        shutil.rmtree(rcfg["save_intermediate_states_path"], ignore_errors=True)
    text = out.getvalue()
    print("replay: steering log:", log)
    tgt = solver._objective._target if solver._objective is not None else objs[0]._target
    kind = solver._objective.kind if solver._objective is not None else objs[0].kind
    declared = objs[0].kind
    # independent oracle on the concrete instance: the base constraint system, re-built from scratch
    with contextlib.redirect_stdout(io.StringIO()):
        pb2, a2, b2, objs2 = declare_problem(engine.Params("conc", values=w["params"]), tr["objective"], getattr(shape, "weights", None))
        s2 = ps.SchedulingSolver(problem=pb2, **{k: v for k, v in tr["cfg"].items() if k not in ("max_iter", "save_intermediate_states")})
        s2.initialize()
    engine.reset_z3_globals()
    base = list(s2._solver.assertions())
    tgt2 = s2._objective._target if s2._objective is not None else objs2[0]._target
    if len(objs2) > 1:
        spec_target = z3.Sum([o._declared_weight * o._target for o in objs2])
    else:
        spec_target = objs2[0]._target
    chk = z3.Solver()
    chk.add(base)
    feasible = chk.check() == z3.sat
    if result is False:
        print(f"replay: solve() returned False; base system feasible = {feasible}; verdicts realised: {log}")
        if feasible and all("planned" not in l[1] or "unknown" not in l[1] for l in log) and any("sat" in l[1] and "unsat" not in l[1] for l in log):
            print("CONFIRMED: a model was found but solve() reported no solution")
            return 1
        return 0
    # the declared objective evaluated on the very model the returned solution was built from
    val = solver._model.eval(spec_target, model_completion=True).as_long()
    better = spec_target < val if declared == "minimize" else spec_target > val
    chk.push()
    chk.add(better)
    exists_better = chk.check() == z3.sat
    witness_better = chk.model().eval(spec_target) if exists_better else None
    chk.pop()
    claimed = "Found optimum" in text
    seen = [v for v in w["values"] if v is not None]
    print(f"replay: returned objective value {val} ({declared}); claimed optimum: {claimed}; a strictly better schedule exists: {exists_better} ({witness_better}); values of earlier models: {[l for l in log]}")
    if claimed and exists_better:
        print("CONFIRMED: the optimiser stopped claiming the optimum although a strictly better valid schedule exists")
        return 1
    realised = [int(l[1].split()[-1]) for l in log if l[1].startswith("sat steered")]
    if realised:
        worst_ok = all((val <= r) if declared == "minimize" else (val >= r) for r in realised)
        if not worst_ok:
            print("CONFIRMED: the returned schedule is worse than a schedule the optimiser had found before")
            return 1
    return 0
