"""C17 - the matplotlib Gantt chart draws exactly the reported assignments at the right place.
The real render_gantt_matplotlib runs on a solution whose times are symbolic (Real-sorted with integrality
assumed, so that Python's `/` is true division) against a recording pyplot/axes: every draw call is a path
outcome with term arguments. Obligations (validity queries): bars <-> reported assignments one to one, on
the row whose tick label is the resource (resp. the task), spanning (start, end - start), or for a
zero-length item a marker whose centre is the instant; task view draws scheduled tasks only; the buffer
polyline is the reported step function. matplotlib itself is trusted; a concrete layer renders with the
real Agg backend (also twice in a row) and inspects the artists."""
import itertools

import z3

import processscheduler as ps
from processscheduler.solution import SchedulingSolution, TaskSolution, ResourceSolution, BufferSolution

from symx import engine, formula
from symx.formula import And, Or, Not
from symx.harness import library_failure, confirm_library_failure, Shape, Ob, Ctx, run_property, quiet

PROP = "C17"


class RecAxes:
    def __init__(self, log, name):
        self.log, self.name = log, name

    def __getattr__(self, meth):
        def call(*a, **kw):
            self.log.append((self.name, meth, a, kw))
        return call


class RecPlt:
    """pyplot recorder; keeps track of the CURRENT axes as pyplot does (the last axes created by
    subplots, or the one selected with sca), so that state-machine calls (plt.plot, plt.xticks) are
    attributed to the axes they would draw on"""

    def __init__(self):
        self.log = []
        self.n_subplots = 0
        self.current = None

    def subplots(self, nrows=1, ncols=1, **kw):
        self.n_subplots += 1
        self.log.append(("plt", "subplots", (nrows, ncols), kw))
        axes = [RecAxes(self.log, f"ax{i}") for i in range(nrows * ncols)]
        self.current = axes[-1].name
        return ("fig", axes[0] if len(axes) == 1 else axes)

    def sca(self, ax):
        self.current = ax.name
        self.log.append(("plt", "sca", (ax.name,), {}))

    def gca(self):
        return RecAxes(self.log, self.current)

    def __getattr__(self, meth):
        def call(*a, **kw):
            self.log.append(("plt", meth, a, dict(kw, __current_axes__=self.current)))
        return call


def symbolic_solution(P, layout, horizon, calendar=False):
    """a SchedulingSolution with symbolic times; layout: which tasks / resources / buffers exist.
    Times are Real constants (integral) - the reported values are ints, and int / 2 is true division."""
    import datetime as _dt

    kw = dict(delta_time=_dt.timedelta(minutes=30), start_time=_dt.datetime(2024, 1, 1, 8, 0)) if calendar else {}
    pb = ps.SchedulingProblem(name="gantt", horizon=horizon, **kw)
    sol = SchedulingSolution(problem=pb)
    sol.horizon = horizon
    assume = []
    tasks = {}

    def real(name):
        r = z3.Real(name)
        P.ex.fresh(r)
        assume.append(z3.IsInt(r))
        return r

    for tn, (scheduled, zero) in layout["tasks"].items():
        ts = TaskSolution(name=tn)
        s = real(f"{tn}_s")
        d = z3.RealVal(0) if zero == "zero" else real(f"{tn}_d")
        assume += [d >= 0]
        ts.start, ts.duration, ts.end = s, d, s + d
        ts.scheduled = scheduled
        ts.optional = not scheduled
        if scheduled:
            assume += [s >= 0, s + d <= horizon]
        ts.assigned_resources = []
        sol.add_task_solution(ts)
        tasks[tn] = ts
    for rn, tnames in layout["resources"].items():
        rs = ResourceSolution(name=rn)
        rs.assignments = []
        for tn in tnames:
            partial = tn.endswith("~")  # the resource holds the task for a part of its span only (delayed / early out /
            tn = tn.rstrip("~")         # dynamic assignment): any interval inside the span, possibly empty
            ts = tasks[tn]
            if partial:
                a_s, a_e = real(f"{rn}_{tn}_as"), real(f"{rn}_{tn}_ae")
                assume += [ts.start <= a_s, a_s <= a_e, a_e <= ts.end]
                rs.assignments.append((tn, a_s, a_e))
            else:
                rs.assignments.append((tn, ts.start, ts.end))
            ts.assigned_resources = ts.assigned_resources + [rn]
        sol.add_resource_solution(rs)
    for bn, n in layout.get("buffers", {}).items():
        bs = BufferSolution(name=bn)
        times = [real(f"{bn}_t{i}") for i in range(n)]
        levels = [real(f"{bn}_l{i}") for i in range(n + 1)]
        for a, b in zip(times, times[1:]):
            assume.append(a < b)
        assume += [t >= 0 for t in times] + [t <= horizon for t in times]
        bs.level_change_times, bs.level = times, levels
        sol.add_buffer_solution(bs)
    if layout.get("indicators"):
        sol.add_indicator_solution("cost", real("ind_cost"))
    return pb, sol, assume


LAYOUTS = {
    "two_resources": dict(tasks={"A": (True, "pos"), "B": (True, "pos"), "C": (False, "pos")}, resources={"R1": ["A", "B"], "R2": ["B"]}),
    "idle_resource_first": dict(tasks={"A": (True, "pos"), "B": (True, "pos")}, resources={"Spare": [], "R1": ["A"], "R2": ["A", "B"]}),
    "zero_duration": dict(tasks={"A": (True, "zero"), "B": (True, "pos")}, resources={"R1": ["A", "B"]}),
    "maybe_zero": dict(tasks={"A": (True, "any"), "B": (False, "zero")}, resources={"R1": ["A"]}, indicators=True),
    "no_resource": dict(tasks={"A": (True, "pos"), "B": (False, "pos"), "C": (True, "zero")}, resources={}),
    "buffers": dict(tasks={"A": (True, "pos"), "B": (True, "pos")}, resources={"R1": ["A", "B"]}, buffers={"Buf": 2, "Buf2": 1}, indicators=True),
    "partial_assignments": dict(tasks={"A": (True, "pos"), "B": (True, "pos")}, resources={"R1": ["A", "B~"], "R2": ["A~"]}),
}


def gantt_shape(layout_name, mode, calendar=False):
    name = f"gantt/{layout_name}/{mode}" + ("/calendar_times" if calendar else "")

    def build(P):
        import processscheduler.plotter as pp

        pb, sol, assume = symbolic_solution(P, LAYOUTS[layout_name], 12, calendar)
        for a in assume:
            P.ex.add_assumption(a)
        rec = RecPlt()
        saved = pp.plt
        pp.plt = rec
        P.ex.all_sym = True
        try:
            pp.render_gantt_matplotlib(sol, show_plot=False, render_mode=mode)
        finally:
            pp.plt = saved
            P.ex.all_sym = False
        return Ctx(problem=pb, solution=sol, rec=rec, mode=mode, phi=[])

    def obligations(ctx):
        return [Ob(f"{PROP}/{name}/{n}", "custom", fn=f, replayer="checks.c17:replay_gantt") for n, f in
                (("bars_match_reported_items", ob_bars), ("buffer_step_function", ob_buffers))]

    sh = Shape(name, build, obligations, initialize=False)
    sh.grid = False
    sh.spec = (layout_name, mode)
    sh.calendar = calendar
    from symx.harness import crash_obligations
    sh.on_exception = crash_obligations(PROP, name, "checks.c17:replay_gantt", "rendering a valid solution does not succeed")
    return sh


def _valid(ctx, path, goal, what):
    base = [formula.to_z3(x) for x in list(path.assume) + list(path.pc)]
    v, m, _ = formula.solve(base + [Not(formula.to_z3(goal))], 30000)
    if v == "unsat":
        return None
    if v == "sat":
        vals = {}
        for d in m.decls():
            try:
                vals[d.name()] = str(m[d])
            except Exception:
                pass
        return {"status": "sat", "queries": 1, "witness": {"params": {}, "pins": {}, "what": what, "values": vals}}
    return {"status": "unknown", "queries": 1, "note": what}


def _r(x):
    if isinstance(x, float):
        return z3.RealVal(repr(x))
    if isinstance(x, int):
        return z3.RealVal(x)
    return x if z3.is_real(x) else z3.ToReal(x)


def ob_bars(ctx, path):
    sol, log, mode = ctx.solution, ctx.rec.log, ctx.mode
    eff_mode = mode if sol.resources else "Task"
    labels = None
    for ax, meth, a, kw in log:
        if ax == "ax0" and meth == "set_yticklabels":
            labels = list(a[0])
    bars = [(a, kw) for ax, meth, a, kw in log if ax == "ax0" and meth == "broken_barh"]
    if eff_mode == "Resource":
        expected = []  # (row label, start, length)
        for rn, rs in sol.resources.items():
            for tn, s, e in rs.assignments:
                expected.append((rn, s, e - s))
    else:
        expected = [(tn, ts.start, ts.duration) for tn, ts in sol.tasks.items() if ts.scheduled]
        unsched = [tn for tn, ts in sol.tasks.items() if not ts.scheduled]
        if labels is not None and any(u in labels for u in unsched):
            return _valid(ctx, path, False, f"task view has a row for the unscheduled task(s) {unsched}")
    if labels is None:
        return _valid(ctx, path, False, "no y tick labels were set")
    if len(bars) != len(expected):
        return _valid(ctx, path, False, f"{len(bars)} bars drawn for {len(expected)} reported items")
    used = [False] * len(bars)
    for (row, s, length) in expected:
        found = False
        for k, (a, kw) in enumerate(bars):
            if used[k]:
                continue
            xr, yr = a[0], a[1]
            if len(xr) != 1:
                continue
            y0, h = yr
            if not isinstance(y0, int) or y0 % 2 or h != 2 or y0 // 2 >= len(labels) or labels[y0 // 2] != row:
                continue
            x, w = xr[0]
            x, w, s_, l_ = _r(x), _r(w), _r(s), _r(length)
            spans = z3.If(l_ == 0, And(x + w / 2 == s_, w > 0, w < 1), And(x == s_, w == l_))
            base = [formula.to_z3(c) for c in list(path.assume) + list(path.pc)]
            v, _, _ = formula.solve(base + [Not(spans)], 20000, want_model=False)
            if v == "unsat":
                used[k] = True
                found = True
                break
        if not found:
            return _valid(ctx, path, False, f"no bar on the row of {row} spans its item (start {s}, length {length}); bars: {[(b[0][0], b[0][1]) for b in bars]}; labels {labels}")
    return {"status": "unsat", "queries": len(expected)}


def ob_buffers(ctx, path):
    sol, log = ctx.solution, ctx.rec.log
    if not sol.buffers:
        return {"status": "unsat", "queries": 0}
    plots = [(a, kw) for ax, meth, a, kw in log if ax == "plt" and meth == "plot"]
    plots += [(a, kw) for ax, meth, a, kw in log if ax == "ax1" and meth == "plot" and a and len(a[0]) > 0]
    if len(plots) != len(sol.buffers):
        return _valid(ctx, path, False, f"{len(plots)} buffer curves for {len(sol.buffers)} buffers")
    for a, kw in plots:
        cur = kw.get("__current_axes__", "ax1")
        if cur != "ax1":
            return _valid(ctx, path, False, f"a buffer curve is drawn on axes {cur}, not on the buffer chart")
    for (a, kw), (bn, bs) in zip(plots, sol.buffers.items()):
        X, Y = a[0], a[1]
        xs = [0] + list(bs.level_change_times) + [sol.horizon]
        segs = [(X[i], X[i + 1], Y[i], Y[i + 1]) for i in range(0, len(X) - 1, 3)]
        if len(segs) != len(bs.level):
            return _valid(ctx, path, False, f"buffer {bn}: {len(segs)} plateaus drawn for {len(bs.level)} levels")
        for k, (x0, x1, y0, y1) in enumerate(segs):
            goal = And(_r(x0) == _r(xs[k]), _r(x1) == _r(xs[k + 1]), _r(y0) == _r(bs.level[k]), _r(y1) == _r(bs.level[k]))
            r = _valid(ctx, path, goal, f"buffer {bn}: plateau {k} is ({x0},{y0})-({x1},{y1}), reported level {bs.level[k]} between {xs[k]} and {xs[k + 1]}")
            if r:
                return r
    return {"status": "unsat", "queries": len(plots)}


# ---- concrete layer: the real Agg backend -----------------------------------------------------------------
def agg_check(layout_name, mode, twice, calendar=False):
    import matplotlib

    matplotlib.use("Agg")
    import matplotlib.pyplot as plt
    import processscheduler.plotter as pp

    problems = []
    lay = LAYOUTS[layout_name]
    starts = {"A": 1, "B": 5, "C": 9}
    durs = {"A": 3, "B": 2, "C": 2}

    def make(shift):
        import datetime as _dt

        kwc = dict(delta_time=_dt.timedelta(minutes=30), start_time=_dt.datetime(2024, 1, 1, 8, 0)) if calendar else {}
        pb = ps.SchedulingProblem(name="agg", horizon=14, **kwc)
        sol = SchedulingSolution(problem=pb)
        sol.horizon = 14
        tasks = {}
        for tn, (scheduled, zero) in lay["tasks"].items():
            ts = TaskSolution(name=tn)
            ts.start = starts[tn] + shift if scheduled else -1
            ts.duration = 0 if zero == "zero" else durs[tn]
            ts.end = ts.start + ts.duration
            ts.scheduled = scheduled
            ts.assigned_resources = []
            sol.add_task_solution(ts)
            tasks[tn] = ts
        for k, (rn, tnames) in enumerate(lay["resources"].items()):
            rs = ResourceSolution(name=rn)
            rs.assignments = []
            for tn in tnames:
                t = tasks[tn.rstrip("~")]
                if tn.endswith("~"):  # first partial assignment: empty, in the middle of the span; the next ones: the last period
                    rs.assignments.append((t.name, t.start + 1, t.start + 1) if k == 0 else (t.name, t.end - 1, t.end))
                else:
                    rs.assignments.append((t.name, t.start, t.end))
                t.assigned_resources = t.assigned_resources + [rn]
            sol.add_resource_solution(rs)
        for bn, n in lay.get("buffers", {}).items():
            bs = BufferSolution(name=bn)
            bs.level_change_times = [2 + 3 * i for i in range(n)]
            bs.level = [5 + 2 * i for i in range(n + 1)]
            sol.add_buffer_solution(bs)
        return sol

    plt.close("all")
    sols = [make(0)] + ([make(1)] if twice else [])
    for sol in sols:
        with quiet():
            pp.render_gantt_matplotlib(sol, show_plot=False, render_mode=mode)
        fig = plt.gcf()
        ax = fig.axes[0]
        labels = [t.get_text() for t in ax.get_yticklabels()]
        rects = []
        for coll in ax.collections:
            for pth in coll.get_paths():
                v = pth.vertices
                x0, x1, y0, y1 = v[:, 0].min(), v[:, 0].max(), v[:, 1].min(), v[:, 1].max()
                rects.append((round(float(x0), 3), round(float(x1), 3), round(float(y0), 3), round(float(y1), 3)))
        if sol.buffers:
            if len(fig.axes) < 2:
                problems.append("no buffer chart in the figure")
            else:
                curves = [l for l in fig.axes[1].lines if len(l.get_xdata()) > 0]
                stray = [l for l in ax.lines if len(l.get_xdata()) > 0]
                if len(curves) != len(sol.buffers) or stray:
                    problems.append(f"{len(curves)} buffer curves on the buffer chart and {len(stray)} on the Gantt chart for {len(sol.buffers)} buffers (calendar={calendar})")
                for l, (bn, bs) in zip(curves, sol.buffers.items()):
                    xs = [x for x in l.get_xdata() if x == x]
                    ys = [y for y in l.get_ydata() if y == y]
                    want_x = [0] + [t for t in bs.level_change_times for _ in (0, 1)] + [sol.horizon]
                    want_y = [lv for lv in bs.level for _ in (0, 1)]
                    if [float(x) for x in xs] != [float(x) for x in want_x] or [float(y) for y in ys] != [float(y) for y in want_y]:
                        problems.append(f"buffer {bn}: curve {list(zip(xs, ys))} is not the reported step function")
        eff_mode = mode if sol.resources else "Task"
        if eff_mode == "Resource":
            exp = [(rn, s, e) for rn, rs in sol.resources.items() for (tn, s, e) in rs.assignments]
        else:
            exp = [(tn, ts.start, ts.end) for tn, ts in sol.tasks.items() if ts.scheduled]
        if len(rects) != len(exp):
            problems.append(f"{len(rects)} bars in the figure for {len(exp)} reported items (mode {mode}, render #{sols.index(sol) + 1})")
        for row, s, e in exp:
            ok = False
            for (x0, x1, y0, y1) in rects:
                ri = int(round(y0 / 2))
                if ri < len(labels) and labels[ri] == row and abs(y1 - y0 - 2) < 1e-6:
                    if (e > s and abs(x0 - s) < 1e-6 and abs(x1 - e) < 1e-6) or (e == s and abs((x0 + x1) / 2 - s) < 1e-6 and 0 < x1 - x0 < 1):
                        ok = True
            if not ok:
                problems.append(f"item {row} [{s},{e}] has no bar on its own row; bars {rects}; labels {labels}")
    plt.close("all")
    return problems


def concrete_shape(layout_name, mode, twice, calendar=False):
    name = f"agg/{layout_name}/{mode}/{'twice' if twice else 'once'}" + ("/calendar_times" if calendar else "")

    def build(P):
        return Ctx(problem=None)

    @library_failure
    def fn(ctx, path):
        problems = agg_check(layout_name, mode, twice, calendar)
        if problems:
            return {"status": "sat", "queries": 1, "witness": {"params": {}, "pins": {}, "what": problems[0]}}
        return {"status": "unsat", "queries": 1}

    def obligations(ctx):
        return [Ob(f"{PROP}/{name}/artists_match_reported_items", "custom", fn=fn, replayer="checks.c17:replay_agg")]

    sh = Shape(name, build, obligations, initialize=False)
    sh.grid = False
    sh.spec = (layout_name, mode, twice, calendar)
    return sh


@confirm_library_failure
def replay_agg(desc):
    import symx.harness as H

    shape = H.get_shape(desc["module"], desc["shape"])
    problems = agg_check(*shape.spec)
    print("replay:", problems[:2])
    if problems:
        print("CONFIRMED: " + problems[0])
        return 1
    return 0


@confirm_library_failure
def replay_gantt(desc):
    """the same layout rendered with the real matplotlib (Agg) on concrete times"""
    import symx.harness as H

    shape = H.get_shape(desc["module"], desc["shape"])
    layout_name, mode = shape.spec
    problems = agg_check(layout_name, mode, False, getattr(shape, "calendar", False))
    print("replay:", problems[:2], "| symbolic counterexample:", desc["witness"].get("what"))
    if problems:
        print("CONFIRMED: " + problems[0])
        return 1
    return 0


def _generated_layouts():
    """thorough tier: every layout of two tasks (scheduled or not; positive, zero or possibly-zero length) over four
    resource patterns, with and without a buffer"""
    import itertools
    out = {}
    pats = {"none": {}, "one": {"R1": ["A"]}, "shared": {"R1": ["A", "B"]}, "split_idle": {"Idle": [], "R1": ["A"], "R2": ["B"]}}
    for (sa, ka), (sb, kb) in itertools.product(itertools.product((True, False), ("pos", "zero", "any")), repeat=2):
        for pn, pat in pats.items():
            res = {r: [t for t in ts if (t == "A" and sa) or (t == "B" and sb)] for r, ts in pat.items()}
            for buf in (False, True):
                if buf and not (pn == "shared" and ka == "pos"):
                    continue
                nm = f"gen_{'s' if sa else 'u'}{ka}_{'s' if sb else 'u'}{kb}_{pn}" + ("_buf" if buf else "")
                out[nm] = dict(tasks={"A": (sa, ka), "B": (sb, kb)}, resources=res, **({"buffers": {"Buf": 2}} if buf else {}))
    return out


GENERATED = _generated_layouts()
LAYOUTS.update(GENERATED)


def shapes(tier):
    out = []
    if tier == "thorough":
        for ln in GENERATED:
            for mode in ("Resource", "Task"):
                out.append(gantt_shape(ln, mode))
    for ln in [l for l in LAYOUTS if l not in GENERATED]:
        for mode in ("Resource", "Task"):
            out.append(gantt_shape(ln, mode))
            out.append(concrete_shape(ln, mode, False))
            out.append(concrete_shape(ln, mode, True))
            if ln in ("buffers", "two_resources", "zero_duration"):
                out.append(gantt_shape(ln, mode, calendar=True))
                out.append(concrete_shape(ln, mode, False, calendar=True))
    return out


def main(tier):
    return run_property(
        PROP, "checks.c17", tier, "translation_validation",
        assumptions=[
            "recording pyplot/axes: matplotlib draws what it is asked to (trusted); floats are modelled as exact rationals",
            "solution times are symbolic integral reals; the horizon is concrete (range(horizon + 1) in the plotter)",
            "layouts: 1-3 tasks, 0-3 resources incl. an idle resource declared first, zero-length and possibly-zero-length items, unscheduled tasks, 1-2 buffers, an indicator; both render modes",
            "concrete layer: real Agg backend, each layout rendered once and twice in a row, artists inspected (trace validation)",
            "plotly rendering is outside the claim (plotly tests fail in the baseline: not importable offline)",
        ])
