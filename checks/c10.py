"""C10 - logical combinations and optional constraints. Every formula (program) built by nesting
the six connectives over raw Boolean atoms and built-in task constraints is declared through the
real API; the assertion set produced by the real initialize() must be EQUIVALENT to
base rules /\\ connective(meanings of the operands): soundness (phi => meaning) and completeness
(base /\\ meaning => exists aux. phi) - the latter also shows operands are not enforced on their own."""
import itertools

import z3

import processscheduler as ps

from symx import formula
from symx.formula import And, Or, Not, Implies, Sum, b2i, to_z3
from symx.harness import Shape, Ob, Ctx, run_property
from checks.common import make_task, new_problem, task_valid

PROP = "C10"

LEAVES = ["p", "q", "startat", "prec", "endbefore", "dontoverlap"]


class Builder:
    """Builds the ps objects of a formula and, in parallel, its reference meaning."""

    def __init__(self, P, a, b):
        self.P, self.a, self.b = P, a, b
        self.n = 0
        self.atoms = {}
        self.optional_operands = []

    def fresh(self, base):
        self.n += 1
        return f"{base}_{self.n}"

    def leaf(self, kind):
        P, a, b = self.P, self.a, self.b
        if kind in ("p", "q", "r"):
            at = z3.Bool(f"atom_{kind}")
            self.atoms[kind] = at
            return at, at
        if kind == "startat":
            nm = self.fresh("startat")
            v = P.int(f"{nm}_v", ph=3)
            return ps.TaskStartAt(name=nm, task=a.obj, value=v), a.s == P.v(f"{nm}_v")
        if kind == "endbefore":
            nm = self.fresh("endbefore")
            v = P.int(f"{nm}_v", ph=30)
            return ps.TaskEndBefore(name=nm, task=b.obj, value=v, kind="strict"), b.e < P.v(f"{nm}_v")
        if kind == "prec":
            nm = self.fresh("prec")
            o = P.int(f"{nm}_o", ph=1)
            return ps.TaskPrecedence(name=nm, task_before=a.obj, task_after=b.obj, offset=o), a.e + P.v(f"{nm}_o") <= b.s
        if kind in ("opt_startat", "opt_endbefore"):
            # an OPTIONAL constraint used as an operand: its own meaning is `applied => relation`
            nm = self.fresh(kind)
            if kind == "opt_startat":
                c = ps.TaskStartAt(name=nm, task=a.obj, value=P.int(f"{nm}_v", ph=3), optional=True)
                rel = a.s == P.v(f"{nm}_v")
            else:
                c = ps.TaskEndBefore(name=nm, task=b.obj, value=P.int(f"{nm}_v", ph=30), optional=True)
                rel = b.e <= P.v(f"{nm}_v")
            self.atoms[f"applied_{nm}"] = c._applied
            self.optional_operands.append(c)
            return c, Implies(c._applied, rel)
        if kind == "contiguous":
            # an operand whose encoding carries auxiliary variables (sorted copies of the dates)
            nm = self.fresh("contiguous")
            return ps.TasksContiguous(name=nm, list_of_tasks=[a.obj, b.obj]), Or(b.s == a.e, a.s == b.e)
        if kind == "group":
            # ... (the group's own start / end variables)
            nm = self.fresh("group")
            lo, hi = P.int(f"{nm}_lo", ph=1), P.int(f"{nm}_hi", ph=30)
            lov, hiv = P.v(f"{nm}_lo"), P.v(f"{nm}_hi")
            return (ps.UnorderedTaskGroup(name=nm, list_of_tasks=[a.obj, b.obj], time_interval=(lo, hi)),
                    And(a.s >= lov, a.e <= hiv, b.s >= lov, b.e <= hiv))
        if kind == "dontoverlap":
            nm = self.fresh("dontoverlap")
            # documented meaning; the zero-length tie is excluded by the shape (fixed durations > 0)
            return ps.TasksDontOverlap(name=nm, task_1=a.obj, task_2=b.obj), Or(a.e <= b.s, b.e <= a.s)
        raise ValueError(kind)

    def build(self, f, optional=False):
        """f: leaf name | (connective, operands...). returns (ps object or z3 atom, meaning)"""
        if isinstance(f, str):
            return self.leaf(f)
        op = f[0]
        kw = {"optional": True} if optional else {}
        nm = self.fresh(op)
        if op == "not":
            o, m = self.build(f[1])
            return ps.Not(name=nm, constraint=o, **kw), Not(m)
        if op in ("and", "or"):
            subs = [self.build(x) for x in f[1:]]
            cls = ps.And if op == "and" else ps.Or
            mean = And([m for _, m in subs]) if op == "and" else Or([m for _, m in subs])
            return cls(name=nm, list_of_constraints=[o for o, _ in subs], **kw), mean
        if op == "xor":
            (o1, m1), (o2, m2) = self.build(f[1]), self.build(f[2])
            return ps.Xor(name=nm, constraint_1=o1, constraint_2=o2, **kw), z3.Xor(m1, m2)
        if op == "implies":
            c, cm = self.leaf(f[1])
            subs = [self.build(x) for x in f[2:]]
            return (ps.Implies(name=nm, condition=c, list_of_constraints=[o for o, _ in subs], **kw),
                    Implies(cm, And([m for _, m in subs])))
        if op == "ite":
            c, cm = self.leaf(f[1])
            (o1, m1), (o2, m2) = self.build(f[2]), self.build(f[3])
            return (ps.IfThenElse(name=nm, condition=c, then_list_of_constraints=[o1], else_list_of_constraints=[o2], **kw),
                    z3.If(cm, m1, m2))
        raise ValueError(op)


def fstr(f):
    if isinstance(f, str):
        return f
    return f"{f[0]}(" + ",".join(fstr(x) for x in f[1:]) + ")"


def formula_shape(f, optional=False, extra_top=None, force_operands=False):
    name = f"formula/{fstr(f)}/{'optional' if optional else 'mandatory'}"
    if extra_top:
        name += f"/next_to_{extra_top}"
    if force_operands:
        name += "/operands_forced_applied"

    def build(P):
        pb, hv = new_problem(P, True)
        a = make_task(P, "A", "fixed")
        b = make_task(P, "B", "fixed")
        bld = Builder(P, a, b)
        top, meaning = bld.build(f, optional=optional)
        ctx = Ctx(problem=pb, a=a, b=b, top=top, meaning=meaning, atoms=dict(bld.atoms), horizon=hv,
                  named={"applied": top._applied})
        if extra_top:
            # an unrelated mandatory constraint declared next to the formula must stay enforced
            o, m = bld.leaf(extra_top)
            ctx.extra_meaning = m
        if force_operands and bld.optional_operands:
            ps.ForceApplyNOptionalConstraints(name="force_ops", list_of_optional_constraints=bld.optional_operands,
                                              nb_constraints_to_apply=len(bld.optional_operands), kind="exact")
            ctx.extra_meaning = And([c._applied for c in bld.optional_operands])
        ctx.named = dict(ctx.named, **{k: v for k, v in bld.atoms.items() if k.startswith("applied_")})
        return ctx

    def obligations(ctx):
        H = ctx.problem._horizon
        base = And(task_valid(ctx.a, H, ctx.horizon), task_valid(ctx.b, H, ctx.horizon), H <= ctx.horizon)
        extra = getattr(ctx, "extra_meaning", None)
        if extra is not None:
            base = And(base, extra)
        observables = ctx.a.observables() + ctx.b.observables() + [H] + list(ctx.atoms.values())
        obs = []
        if optional:
            ap = ctx.top._applied
            obs.append(Ob(f"{PROP}/{name}/applied_implies_meaning", "sound", clause=ctx.meaning, guard=ap))
            obs.append(Ob(f"{PROP}/{name}/admitted_exactly", "complete", valid=And(base, Implies(ap, ctx.meaning)),
                          observables=observables + [ap]))
            obs.append(Ob(f"{PROP}/{name}/may_be_left_unapplied", "complete", valid=And(base, Not(ap)),
                          observables=observables + [ap]))
        else:
            obs.append(Ob(f"{PROP}/{name}/implies_meaning", "sound", clause=ctx.meaning))
            obs.append(Ob(f"{PROP}/{name}/nothing_else_enforced", "complete", valid=And(base, ctx.meaning), observables=observables))
        if extra is not None:
            obs.append(Ob(f"{PROP}/{name}/neighbour_still_enforced", "sound", clause=extra))
        return obs

    sh = Shape(name, build, obligations)
    sh.grid_limit = 3
    return sh


def optional_constraints_shape(kind, n, m):
    """m optional constraints, ForceApplyNOptionalConstraints(kind, n)."""
    name = f"force_apply/{kind}{n}_of_{m}"

    def build(P):
        pb, hv = new_problem(P, True)
        a = make_task(P, "A", "fixed")
        b = make_task(P, "B", "var", vmin=True, vmax=True)
        cs, means = [], []
        specs = [("startat", lambda i: (ps.TaskStartAt(name=f"oc{i}", task=a.obj, value=P.int(f"oc{i}_v", ph=3 + i), optional=True), a.s == P.v(f"oc{i}_v"))),
                 ("endbefore", lambda i: (ps.TaskEndBefore(name=f"oc{i}", task=b.obj, value=P.int(f"oc{i}_v", ph=30 + i), optional=True), b.e <= P.v(f"oc{i}_v"))),
                 ("prec", lambda i: (ps.TaskPrecedence(name=f"oc{i}", task_before=a.obj, task_after=b.obj, optional=True), a.e <= b.s))]
        for i in range(m):
            c, mean = specs[i % 3][1](i)
            cs.append(c)
            means.append(mean)
        ps.ForceApplyNOptionalConstraints(name="force", list_of_optional_constraints=cs, nb_constraints_to_apply=n, kind=kind)
        named = {f"applied{i}": c._applied for i, c in enumerate(cs)}
        return Ctx(problem=pb, a=a, b=b, cs=cs, means=means, horizon=hv, named=named)

    def obligations(ctx):
        H = ctx.problem._horizon
        base = And(task_valid(ctx.a, H, ctx.horizon), task_valid(ctx.b, H, ctx.horizon), H <= ctx.horizon)
        aps = [c._applied for c in ctx.cs]
        total = Sum([b2i(x) for x in aps])
        cnt = {"exact": total == n, "min": total >= n, "max": total <= n}[kind]
        obs = [Ob(f"{PROP}/{name}/count", "sound", clause=cnt)]
        for i, (ap, mean) in enumerate(zip(aps, ctx.means)):
            obs.append(Ob(f"{PROP}/{name}/applied_holds_{i}", "sound", clause=mean, guard=ap))
        valid = And(base, cnt, And([Implies(ap, mean) for ap, mean in zip(aps, ctx.means)]))
        observables = ctx.a.observables() + ctx.b.observables() + [H] + aps
        obs.append(Ob(f"{PROP}/{name}/every_allowed_choice_admitted", "complete", valid=valid, observables=observables,
                      extra={"vacuous_ok": n > m and kind != "max"}))
        return obs

    sh = Shape(name, build, obligations)
    sh.grid_limit = 3
    return sh


# ---- the optional flag is honoured by every constraint class ------------------------------------------------
# Twin build (as in C06): the same small problem without the constraint and with the constraint declared
# optional. Every schedule of the first must remain available in the second with the constraint unapplied.
def _optional_classes():
    import inspect
    from checks import c18
    from processscheduler.constraint import Constraint
    out = []
    for cname in sorted(dir(ps)):
        cls = getattr(ps, cname)
        if not (inspect.isclass(cls) and issubclass(cls, Constraint)) or cname in c18.SWEEP_SKIP:
            continue
        if (cname, "optional") in c18.SWEEP_ILL or "optional" not in cls.model_fields:
            continue
        if cname in ("TaskLoadBuffer", "TaskUnloadBuffer"):
            continue  # declarations of buffer accesses rather than rules: what an unapplied access would mean is not documented
        out.append(cname)
    return out


def _declare_optional(cname, with_constraint):
    from checks import c18
    cls = getattr(ps, cname)
    e = c18._env()
    if not with_constraint:
        return e, None
    req = [f for f, fi in cls.model_fields.items() if fi.is_required()]
    kw = {r: c18.REQUIRED[r](e) for r in req}
    if cname.startswith("OptionalTask"):
        kw.update({k: e["o1"] for k in ("task", "task_2") if k in kw})
    if cname == "IndicatorBounds":
        kw["upper_bound"] = 0
    if cname == "IndicatorTarget":
        kw["value"] = 0
    return e, cls(name="under_test", optional=True, **kw)


def optional_flag_shape(cname):
    name = f"optional_flag/{cname}"

    def build(P):
        pb0 = ps.SchedulingProblem(name="without", horizon=12)
        _declare_optional(cname, False)
        s0 = ps.SchedulingSolver(problem=pb0)
        s0.initialize()
        phi0 = list(s0._solver.assertions())
        pb1 = ps.SchedulingProblem(name="with", horizon=12)
        e, c = _declare_optional(cname, True)
        return Ctx(problem=pb1, phi0=phi0, cst=c, named={"applied": c._applied})

    def obligations(ctx):
        phi1 = list(ctx.phi) + [Not(ctx.cst._applied)]
        c0, _ = formula.constants(ctx.phi0)
        c1, _ = formula.constants(phi1)
        # shared observables: what both builds name alike (task dates, flags, busy intervals of plain workers, buffer
        # levels); uid-named constants (selection flags, _applied) differ from build to build and stay existential
        shared = [c for n, c in c1.items() if n in c0 and "_maybe_busy_" not in n]
        from checks.common import buffer_witness
        return [Ob(f"{PROP}/{name}/may_be_left_unapplied", "complete", valid=And(buffer_witness(list(ctx.phi0))), observables=shared, phi=phi1,
                   transform=buffer_witness, replayer="checks.c10:replay_optional_flag")]

    sh = Shape(name, build, obligations)
    sh.grid = False
    from symx.harness import crash_obligations
    sh.on_exception = crash_obligations(PROP, name, "symx.harness:replay_build_crash", "a well-formed problem cannot be built and initialised")
    sh.cname = cname
    return sh


def replay_optional_flag(desc):
    import symx.harness as H
    from symx import engine
    from symx.harness import quiet

    shape = H.get_shape(desc["module"], desc["shape"])
    w = desc["witness"]
    res = {}
    for with_c in (False, True):
        with quiet():
            pb = ps.SchedulingProblem(name="replay", horizon=12)
            e, c = _declare_optional(shape.cname, with_c)
            probe = ps.SchedulingSolver(problem=pb)
            probe.initialize()
            consts, _ = formula.constants(list(probe._solver.assertions()))
            k = 0
            for n, v in (w.get("pins") or {}).items():
                if "!" in n or n not in consts or "_maybe_busy_" in n or n.startswith(("Selected_", "constraint_", "Indicator_")):
                    continue
                if not isinstance(v, (bool, int)) or not (z3.is_int(consts[n]) or z3.is_bool(consts[n])):
                    continue
                if z3.is_bool(consts[n]) != isinstance(v, bool):
                    continue
                ps.ConstraintFromExpression(name=f"__pin_{k}", expression=(consts[n] == (z3.BoolVal(v) if isinstance(v, bool) else v)))
                k += 1
            if with_c:
                ps.ConstraintFromExpression(name="__unapplied", expression=z3.Not(c._applied))
            res[with_c] = bool(ps.SchedulingSolver(problem=pb).solve())
        engine.reset_z3_globals()
    print(f"replay: pinned schedule: without the constraint -> {res[False]}; with the optional constraint left unapplied -> {res[True]}")
    if res[False] and not res[True]:
        print(f"CONFIRMED: {shape.cname}(optional=True) excludes a schedule although it is not applied")
        return 1
    return 0



def forced_shape(cname):
    """a constraint declared optional and forced to be applied (ForceApplyNOptionalConstraints exact 1 of [C]) means
    exactly what the same constraint declared mandatory means (twin builds, both directions)"""
    name = f"forced_equals_mandatory/{cname}"

    def declare(optional):
        from checks import c05
        from checks import c18
        cls = getattr(ps, cname)
        e = c18._env()
        req = [f for f, fi in cls.model_fields.items() if fi.is_required()]
        kw = {r: c18.REQUIRED[r](e) for r in req}
        if cname.startswith("OptionalTask"):
            kw.update({x: e["o1"] for x in ("task", "task_2") if x in kw})
        if cname == "IndicatorBounds":
            kw["upper_bound"] = 40
        if cname == "IndicatorTarget":
            kw["value"] = 3
        if cname in ("TasksEndSynced", "TasksStartSynced"):
            kw["task_2"] = e["t3"]
        if cname.startswith("ResourcePeriodically"):
            kw.update(list_of_time_intervals=[(0, 1)], period=6)
        c = cls(name="under_test", optional=optional, **kw)
        if optional:
            ps.ForceApplyNOptionalConstraints(name="force", list_of_optional_constraints=[c], nb_constraints_to_apply=1, kind="exact")
        return c

    def build(P):
        pb1 = ps.SchedulingProblem(name="mandatory", horizon=12)
        declare(False)
        s1 = ps.SchedulingSolver(problem=pb1)
        s1.initialize()
        phi_m = list(s1._solver.assertions())
        pb2 = ps.SchedulingProblem(name="forced", horizon=12)
        c = declare(True)
        return Ctx(problem=pb2, phi_m=phi_m, named={"applied": c._applied})

    def obligations(ctx):
        from checks.common import buffer_witness
        c1, _ = formula.constants(ctx.phi_m)
        c2, _ = formula.constants(ctx.phi)
        shared = [c for n, c in c2.items() if n in c1 and "_maybe_busy_" not in n]
        return [Ob(f"{PROP}/{name}/forced_admits_every_schedule_of_mandatory", "complete", valid=And(buffer_witness(list(ctx.phi_m))), observables=shared,
                   phi=list(ctx.phi), transform=buffer_witness, replayer="checks.c10:replay_forced", twin=buffer_witness(list(ctx.phi_m))),
                Ob(f"{PROP}/{name}/forced_admits_nothing_more", "complete", valid=And(buffer_witness(list(ctx.phi))), observables=shared,
                   phi=list(ctx.phi_m), transform=buffer_witness, replayer="checks.c10:replay_forced", twin=buffer_witness(list(ctx.phi)))]

    sh = Shape(name, build, obligations)
    sh.grid = False
    from symx.harness import crash_obligations
    sh.on_exception = crash_obligations(PROP, name, "symx.harness:replay_build_crash", "a well-formed problem cannot be built and initialised")
    sh.declare = declare
    return sh


def replay_forced(desc):
    import symx.harness as H
    from symx import engine
    from symx.harness import quiet

    shape = H.get_shape(desc["module"], desc["shape"])
    w = desc["witness"]
    res = {}
    for optional in (False, True):
        with quiet():
            pb = ps.SchedulingProblem(name="replay", horizon=12)
            shape.declare(optional)
            probe = ps.SchedulingSolver(problem=pb)
            probe.initialize()
            consts, _ = formula.constants(list(probe._solver.assertions()))
            k = 0
            for n, v in (w.get("pins") or {}).items():
                if "!" in n or n not in consts or "_maybe_busy_" in n or n.startswith(("Selected_", "constraint_", "Indicator_", "task_group_")):
                    continue
                if not isinstance(v, (bool, int)) or not (z3.is_int(consts[n]) or z3.is_bool(consts[n])) or z3.is_bool(consts[n]) != isinstance(v, bool):
                    continue
                ps.ConstraintFromExpression(name=f"__pin_{k}", expression=(consts[n] == (z3.BoolVal(v) if isinstance(v, bool) else v)))
                k += 1
            res[optional] = bool(ps.SchedulingSolver(problem=pb).solve())
        engine.reset_z3_globals()
    print(f"replay: pinned schedule: plain / mandatory declaration -> {res[False]}; wrapped / forced declaration -> {res[True]}")
    if res[False] != res[True]:
        print("CONFIRMED: the two declarations of the same rule do not admit the same schedules")
        return 1
    return 0



def _make_instance(cname, e, nm, **extra):
    from checks import c18
    cls = getattr(ps, cname)
    req = [f for f, fi in cls.model_fields.items() if fi.is_required()]
    kw = {r: c18.REQUIRED[r](e) for r in req}
    if cname.startswith("OptionalTask"):
        kw.update({x: e["o1"] for x in ("task", "task_2") if x in kw})
    if cname == "IndicatorBounds":
        kw["upper_bound"] = 40
    if cname == "IndicatorTarget":
        kw["value"] = 4
    if cname in ("TasksEndSynced", "TasksStartSynced"):
        kw["task_2"] = e["t3"]
    if cname.startswith("ResourcePeriodically"):
        kw.update(list_of_time_intervals=[(0, 1)], period=6)
    kw.update(extra)
    return cls(name=nm, **kw)


WRAPPERS = {
    "and_of_one": lambda mk: ps.And(name="wrap", list_of_constraints=[mk("x1")]),
    "or_of_two_copies": lambda mk: ps.Or(name="wrap", list_of_constraints=[mk("x1"), mk("x2")]),
    "implied_by_true": lambda mk: ps.Implies(name="wrap", condition=True, list_of_constraints=[mk("x1")]),
    "then_branch_of_true": lambda mk: ps.IfThenElse(name="wrap", condition=True, then_list_of_constraints=[mk("x1")], else_list_of_constraints=[z3.BoolVal(False)]),
}


# connectives that must leave their operand without any effect: the condition is the Python constant that skips it
SKIPPING = {
    "implied_by_false": lambda mk: ps.Implies(name="wrap", condition=False, list_of_constraints=[mk("x1")]),
    "else_branch_of_true": lambda mk: ps.IfThenElse(name="wrap", condition=True, then_list_of_constraints=[z3.BoolVal(True)], else_list_of_constraints=[mk("x1")]),
    "then_branch_of_false": lambda mk: ps.IfThenElse(name="wrap", condition=False, then_list_of_constraints=[mk("x1")], else_list_of_constraints=[z3.BoolVal(True)]),
    "alternative_to_true": lambda mk: ps.Or(name="wrap", list_of_constraints=[mk("x1"), z3.BoolVal(True)]),
}
WRAPPERS.update(SKIPPING)


def wrapped_shape(wrapper, cname):
    """a constraint used as the (only effective) operand of a connective in positive position means what it means
    when declared on its own - for every constraint class (twin builds, both directions)"""
    name = f"wrapped_equals_plain/{wrapper}/{cname}"

    def declare(wrapped):
        from checks import c18
        e = c18._env()
        if wrapped:
            WRAPPERS[wrapper](lambda nm: _make_instance(cname, e, nm))
        elif wrapper not in SKIPPING:
            _make_instance(cname, e, "x1")  # (a skipping connective is compared with the problem without the rule)

    def build(P):
        pb1 = ps.SchedulingProblem(name="plain", horizon=12)
        declare(False)
        s1 = ps.SchedulingSolver(problem=pb1)
        s1.initialize()
        phi_p = list(s1._solver.assertions())
        pb2 = ps.SchedulingProblem(name="wrapped", horizon=12)
        declare(True)
        return Ctx(problem=pb2, phi_p=phi_p)

    def obligations(ctx):
        from checks.common import buffer_witness
        c1, _ = formula.constants(ctx.phi_p)
        c2, _ = formula.constants(ctx.phi)
        shared = [c for n, c in c2.items() if n in c1 and "_maybe_busy_" not in n]
        return [Ob(f"{PROP}/{name}/wrapped_admits_every_schedule_of_plain", "complete", valid=And(buffer_witness(list(ctx.phi_p))), observables=shared,
                   phi=list(ctx.phi), transform=buffer_witness, replayer="checks.c10:replay_forced", twin=buffer_witness(list(ctx.phi_p))),
                Ob(f"{PROP}/{name}/wrapped_admits_nothing_more", "complete", valid=And(buffer_witness(list(ctx.phi))), observables=shared,
                   phi=list(ctx.phi_p), transform=buffer_witness, replayer="checks.c10:replay_forced", twin=buffer_witness(list(ctx.phi)),
                   timeout_ms=240000)]

    sh = Shape(name, build, obligations)
    sh.grid = False
    from symx.harness import crash_obligations
    sh.on_exception = crash_obligations(PROP, name, "symx.harness:replay_build_crash", "a well-formed problem cannot be built and initialised")
    sh.declare = declare
    return sh



def expression_shape(which):
    name = f"expression/{which}"

    def build(P):
        pb, hv = new_problem(P, True)
        a = make_task(P, "A", "fixed")
        b = make_task(P, "B", "var", vmin=True, vmax=True)
        k = P.term("k", ph=4)
        exprs = {
            "linear": a.s + 2 * b.e >= k,
            "boolean": z3.Or(a.s == k, z3.And(b.s > a.e, b.obj._duration == 2)),
            "distinct": z3.And(a.s != b.s, a.e != k),
        }
        e = exprs[which]
        ps.ConstraintFromExpression(name="user", expression=e)
        return Ctx(problem=pb, a=a, b=b, expr=e, horizon=hv)

    def obligations(ctx):
        H = ctx.problem._horizon
        base = And(task_valid(ctx.a, H, ctx.horizon), task_valid(ctx.b, H, ctx.horizon), H <= ctx.horizon)
        observables = ctx.a.observables() + ctx.b.observables() + [H]
        return [Ob(f"{PROP}/{name}/enforced_as_written", "sound", clause=ctx.expr),
                Ob(f"{PROP}/{name}/nothing_else_enforced", "complete", valid=And(base, ctx.expr), observables=observables)]

    return Shape(name, build, obligations)


def formulas(tier):
    d1 = []
    L = ["p", "startat", "prec", "endbefore"]
    for x in L:
        d1.append(("not", x))
    for x, y in [("p", "startat"), ("startat", "endbefore"), ("prec", "q"), ("startat", "prec")]:
        d1 += [("and", x, y), ("or", x, y), ("xor", x, y)]
    d1 += [("or", "p", "startat", "endbefore"), ("and", "prec", "startat", "endbefore")]
    d1 += [("implies", "p", "startat"), ("implies", "q", "prec", "endbefore"),
           ("ite", "p", "startat", "endbefore"), ("ite", "q", "prec", "p"), ("not", "dontoverlap"),
           ("xor", "dontoverlap", "p")]
    d2 = [("not", ("or", "p", "startat")), ("not", ("and", "startat", "endbefore")), ("not", ("not", "prec")),
          ("or", ("and", "p", "startat"), ("and", "q", "endbefore")), ("and", ("or", "startat", "prec"), ("not", "p")),
          ("xor", ("or", "p", "startat"), "endbefore"), ("xor", ("not", "startat"), ("and", "q", "prec")),
          ("implies", "p", ("or", "startat", "prec")), ("implies", "q", ("not", "endbefore"), ("xor", "p", "startat")),
          ("ite", "p", ("and", "startat", "endbefore"), ("not", "prec")), ("ite", "q", ("or", "p", "prec"), ("xor", "startat", "endbefore")),
          ("or", ("implies", "p", "startat"), "endbefore"), ("and", ("ite", "p", "startat", "prec"), "q"),
          ("not", ("xor", "startat", "p")), ("not", ("implies", "p", "prec")), ("not", ("ite", "q", "startat", "endbefore"))]
    d3 = []
    if tier == "thorough":
        for outer in ("not", "or", "and", "xor"):
            for inner in d2[:10]:
                if outer == "not":
                    d3.append(("not", inner))
                else:
                    d3.append((outer, inner, "r"))
        d3 += [("implies", "r", x) for x in d2[:6]] + [("ite", "r", x, "startat") for x in d2[3:8]]
    return d1, d2, d3


def shapes(tier):
    out = []
    d1, d2, d3 = formulas(tier)
    for f in d1 + d2 + d3:
        out.append(formula_shape(f))
    for f in d1[::3] + d2[::2]:
        out.append(formula_shape(f, optional=True))
    for f in [("not", "startat"), ("or", "p", "prec"), ("xor", ("or", "p", "startat"), "endbefore"), ("ite", "p", "startat", "endbefore")]:
        out.append(formula_shape(f, extra_top="endbefore"))
    # optional constraints as operands (with and without a force-apply rule over them)
    for f in [("not", "opt_startat"), ("xor", "opt_startat", "p"), ("or", "opt_startat", "prec"), ("and", "opt_startat", "opt_endbefore"),
              ("implies", "p", "opt_endbefore"), ("ite", "q", "opt_startat", "prec"), ("not", ("or", "opt_startat", "opt_endbefore")),
              ("xor", ("not", "opt_startat"), "endbefore")]:
        out.append(formula_shape(f))
        out.append(formula_shape(f, force_operands=True))
    if tier == "thorough":
        for f in d1 + d2:
            out.append(formula_shape(f, optional=True))
    # operands whose encoding has auxiliary variables, in positive and in negative position
    for f in [("or", "contiguous", "startat"), ("implies", "p", "group"), ("and", "contiguous", "group"),
              ("not", "contiguous"), ("not", "group"), ("xor", "contiguous", "p"), ("ite", "p", ("not", "group"), "startat")]:
        out.append(formula_shape(f))
    for m in (2, 3):
        for kind in ("min", "max", "exact"):
            for n in range(1, m + (2 if kind == "max" else 1)):  # min/exact m+1 of m is infeasible by definition
                out.append(optional_constraints_shape(kind, n, m))
    for which in ("linear", "boolean", "distinct"):
        out.append(expression_shape(which))
    for cname in _optional_classes():
        out.append(optional_flag_shape(cname))
        out.append(forced_shape(cname))
    from checks import c05 as _c05
    for cname in _c05._constraint_classes():
        if cname in ("ForceApplyNOptionalConstraints",):
            continue  # (its operands must be optional constraints, themselves outside the connective)
        for wrapper in (WRAPPERS if tier == "thorough" else ("or_of_two_copies", "then_branch_of_true", "implied_by_false", "else_branch_of_true")):
            if wrapper == "or_of_two_copies" and cname in ("ResourceTasksDistance", "ResourceNonDelay") and tier != "thorough":
                continue  # two copies of a sort network: no positional witness, the quantified query takes about a minute
            out.append(wrapped_shape(wrapper, cname))
    # de-duplicate by name
    seen, res = set(), []
    for s in out:
        if s.name not in seen:
            seen.add(s.name)
            res.append(s)
    return res


def main(tier):
    return run_property(
        PROP, "checks.c10", tier, "translation_validation",
        assumptions=[
            "formulas: all listed programs of depth <= 2 (thorough 3) over the six connectives; operands: raw Boolean atoms and TaskStartAt / TaskPrecedence / TaskEndBefore / TasksDontOverlap with symbolic values",
            "completeness half is a quantified query (forall auxiliaries . not phi) decided by z3; tasks are two mandatory tasks with symbolic durations and a symbolic horizon",
            "force-apply counts enumerated 1..m+1 for m = 2, 3 optional constraints",
            "class-generic twin builds on a concrete five-task problem (C18's sweep environment, one well-formed instance per class): optional may be left unapplied / optional + forced = mandatory (33 classes), operand of And / Or / Implies / IfThenElse in positive position = plain declaration (34 classes; quick: two wrappers); the solver decides over all schedules of that problem",
            "operands whose encoding defines auxiliary variables: positive position checked, negative position is a recorded known finding (four formulas)",
        ])
