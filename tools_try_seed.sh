#!/bin/bash
# usage: tools_try_seed.sh <patch.diff> <check id> [tier] [lines]  -- applies the patch to /repo, runs the check, reverts
set -u
patch=$1; id=$2; tier=${3:-quick}
if [ -n "$(git -C /repo status --porcelain --untracked-files=no)" ]; then echo "REPO NOT CLEAN"; exit 8; fi
git -C /repo apply "$patch" 2>/dev/null || git -C /repo apply --3way "$patch" 2>/dev/null || { echo "PATCH DOES NOT APPLY"; git -C /repo reset -q --hard HEAD; exit 9; }
/venv/bin/python -B /verif/run_check.py "$id" --tier "$tier" 2>&1 | grep -v "^(smt\|^$" | grep -E "VIOLATION|KNOWN|INCONCLUSIVE|\[$tier\]" | cut -c1-400 | head -${4:-12}
echo "exit=${PIPESTATUS[0]}"
git -C /repo reset -q --hard HEAD
