#!/bin/bash
# usage: tools_try_seed.sh <patch.diff> <check id> [tier]   -- applies the patch to /repo, runs the check, reverts
set -u
patch=$1; id=$2; tier=${3:-quick}
git -C /repo apply "$patch" || { echo "PATCH DOES NOT APPLY"; exit 9; }
/venv/bin/python -B /verif/run_check.py "$id" --tier "$tier" 2>&1 | grep -v "^(smt\|^$" | grep -E "VIOLATION|KNOWN|INCONCLUSIVE|\[$tier\]" | cut -c1-400 | head -${4:-12}
echo "exit=${PIPESTATUS[0]}"
git -C /repo checkout -- .
