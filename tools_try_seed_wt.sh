#!/bin/bash
# usage: tools_try_seed_wt.sh <patch.diff> <check id> [tier] [lines]
# like tools_try_seed.sh but in a scratch worktree of /repo HEAD (PYTHONPATH shadows the installed package),
# so that /repo's working tree is not touched
set -u
patch=$1; id=$2; tier=${3:-quick}
wt=/tmp/wt_try_$$
git -C /repo worktree add -q --detach $wt ${BASE:-HEAD} || exit 8
( cd $wt && (git apply "$patch" 2>/dev/null || git apply --3way "$patch" 2>/dev/null) ) || { echo "PATCH DOES NOT APPLY"; git -C /repo worktree remove --force $wt; exit 9; }
PYTHONPATH=$wt /venv/bin/python -B /verif/run_check.py "$id" --tier "$tier" 2>&1 | grep -v "^(smt\|^$" | grep -E "VIOLATION|KNOWN|INCONCLUSIVE|\[$tier\]" | cut -c1-400 | head -${4:-6}
git -C /repo worktree remove --force $wt
