#!/venv/bin/python
"""Entry point: /venv/bin/python -B /verif/run_check.py <ID> [--tier quick|thorough]"""
import argparse
import importlib
import os
import sys

sys.path.insert(0, os.path.dirname(os.path.abspath(__file__)))


def main():
    ap = argparse.ArgumentParser()
    ap.add_argument("prop")
    ap.add_argument("--tier", default=os.environ.get("VERIF_TIER", "quick"))
    a = ap.parse_args()
    tier = a.tier if a.tier in ("quick", "thorough") else "quick"
    mod = importlib.import_module(f"checks.{a.prop.lower()}")
    return mod.main(tier)


if __name__ == "__main__":
    sys.exit(main())
