#!/venv/bin/python
"""Replay a counterexample descriptor in a fresh interpreter with NO harness patches.
exit 1 = the violation is confirmed on the real code, 0 = not reproduced, 2 = replay error."""
import importlib
import json
import os
import sys

sys.path.insert(0, os.path.dirname(os.path.abspath(__file__)))


def main():
    with open(sys.argv[1]) as f:
        desc = json.load(f)
    modname, fn = desc["replayer"].split(":")
    mod = importlib.import_module(modname)
    try:
        code = getattr(mod, fn)(desc)
    except Exception:
        import traceback

        traceback.print_exc()
        return 2
    return code


if __name__ == "__main__":
    sys.exit(main())
