#!/venv/bin/python
"""False-alarm hunt: apply behaviour-preserving refactorings (written by independent agents) to /repo's
working tree, run the relevant quick checks, reset. Any VIOLATION here is a false alarm of the check."""
import json
import os
import subprocess
import sys

VERIF = os.path.dirname(os.path.dirname(os.path.abspath(__file__)))
REL = {
    "R1": ["C01", "C03", "C05", "C06", "C10", "C14", "C02"],
    "R2": ["C02", "C04", "C05", "C06", "C14", "C18", "C11"],
    "R3": ["C01", "C02", "C05", "C07", "C09", "C11", "C12", "C13", "C15", "C16", "C19"],
    "R4": ["C08", "C10", "C07", "C09", "C06", "C04", "C03"],
    "R5": ["C16", "C17", "C18", "C09", "C11", "C14", "C01"],
}


def sh(cmd, **kw):
    return subprocess.run(cmd, shell=True, capture_output=True, text=True, **kw)


def main():
    src = sys.argv[1]
    only = [a for a in sys.argv[2:] if not a.startswith("--checks=")]
    sel = [a.split("=", 1)[1].split(",") for a in sys.argv[2:] if a.startswith("--checks=")]
    assert sh("git -C /repo status --porcelain --untracked-files=no").stdout.strip() == ""
    for agent in sorted(REL):
        if only and agent not in only:
            continue
        for r in ("R1", "R2", "R3"):
            p = os.path.join(src, agent, "out", f"{r}.diff")
            if not os.path.exists(p):
                continue
            for check in (sel[0] if sel else REL[agent]):
                a = sh(f"git -C /repo apply {p}")
                if a.returncode:
                    rec = {"refactor": f"{agent}/{r}", "check": check, "result": "does not apply"}
                else:
                    run = sh(f"/venv/bin/python -B {VERIF}/run_check.py {check} --tier quick", cwd=VERIF)
                    lines = run.stdout.splitlines()
                    rec = {"refactor": f"{agent}/{r}", "check": check, "exit": run.returncode,
                           "violations": sum(l.startswith("VIOLATION") for l in lines),
                           "inconclusive": sum(l.startswith("INCONCLUSIVE") for l in lines),
                           "first": ([l for l in lines if l.startswith(("VIOLATION", "INCONCLUSIVE"))] or [""])[0][:400]}
                sh("git -C /repo reset -q --hard HEAD")
                print(json.dumps(rec), flush=True)
                with open(os.path.join(VERIF, "seeded", "REFACTOR_RESULTS.jsonl"), "a") as f:
                    f.write(json.dumps(rec) + "\n")


if __name__ == "__main__":
    main()
