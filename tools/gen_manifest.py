#!/venv/bin/python
"""Regenerate /verif/MANIFEST.json from the table below (kept in one place so it stays valid)."""
import json
import os

VERIF = os.path.dirname(os.path.dirname(os.path.abspath(__file__)))
RUN = "/venv/bin/python -B /verif/run_check.py"

TV = "translation_validation"
MC = "model_checking"

CHECKS = {
    "C01": dict(level=TV, ref="DESIGN.md 4 C01",
                text="The real task constructors and SchedulingSolver.initialize() are executed on z3-term parameters; for every symbolic path the assertion set actually handed to z3 is proved (unsat of the negation) to imply each timing clause for ALL parameter values and ALL admitted schedules, per task kind, optional flag, release/due/horizon combination, next to every other element kind and under several solver configurations; the same obligations are re-decided on unpatched builds at concrete parameter points. Counterexamples are replayed through the public API before being reported.",
                note="Bounded by harness shapes (one task under test + one context element); pydantic-core trusted to enforce declared field constraints; z3 is both term builder and decision procedure.",
                technique="symbolic execution of the real encoder by z3-term injection + SMT validity queries (QF_LIA) against a reference semantics, counterexample replay"),
}

NOT_APPLICABLE = {}


def main():
    props = [json.loads(l) for l in open(os.path.join(VERIF, "properties.jsonl"))]
    checks = []
    for p in props:
        c = CHECKS.get(p["id"])
        if not c:
            continue
        checks.append({
            "property_id": p["id"],
            "quick_cmd": f"{RUN} {p['id']} --tier quick",
            "thorough_cmd": f"{RUN} {p['id']} --tier thorough",
            "evidence_file": f"/verif/evidence/{p['id']}.json",
            "replay_cmd_template": "/venv/bin/python -B /verif/replay.py {path}",
            "engine": "symx",
            "level_claimed": {"category": c["level"], "text": c["text"], "design_ref": c["ref"]},
            "level_note": c["note"],
            "technique": c["technique"],
        })
    na = []
    for p in props:
        if p["id"] not in CHECKS:
            na.append({"property_id": p["id"], "reason": NOT_APPLICABLE.get(p["id"], "check not built yet in this round (in progress); see DESIGN.md section 4 for the intended solver-based check")})
    man = {
        "version": 1,
        "setup_cmd": "/venv/bin/python -B /verif/tools/setup.py",
        "hooks": {
            "guard": "PROCESSSCHEDULER_VERIF",
            "enable": "no source hooks: all instrumentation (BoolRef.__bool__, BaseModelWithJson.__init__ wrapper, solver stubs) is installed by the harness inside its own process; the variable is reserved and unused",
            "baseline_off_cmd": "cd /repo && /venv/bin/python -m pytest -ra -q -p no:cacheprovider --timeout=900 --continue-on-collection-errors",
            "source_commits": [],
            "add_only": True,
        },
        "engines": [
            {"name": "symx", "path": "/verif/symx", "serves_properties": sorted(CHECKS),
             "kind_free_text": "symbolic execution of ProcessScheduler's own Python by z3-term injection (forking BoolRef.__bool__, pydantic placeholder/overwrite), SMT validity/equivalence queries with z3 4.12.6, contract-level solver stubs for control code, replay through the unpatched public API"},
        ],
        "checks": checks,
        "notes": "Exit codes: 0 = every obligation discharged (or listed in known_findings.json); 1 = replay-confirmed violation (VIOLATION line); 3 = inconclusive (unknown/timeout/non-reproducing counterexample), never reported as success. Known findings: /verif/known_findings.json.",
        "not_applicable": na,
    }
    with open(os.path.join(VERIF, "MANIFEST.json"), "w") as f:
        json.dump(man, f, indent=1)
    print("checks:", [c["property_id"] for c in checks], "not_applicable:", [n["property_id"] for n in na])


if __name__ == "__main__":
    main()
