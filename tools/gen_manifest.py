#!/venv/bin/python
"""Regenerate /verif/MANIFEST.json from the table below (kept in one place so it stays valid)."""
import json
import os

VERIF = os.path.dirname(os.path.dirname(os.path.abspath(__file__)))
RUN = "/venv/bin/python -B /verif/run_check.py"

TV = "translation_validation"
MC = "model_checking"

TECH_TV = "symbolic execution of the real encoder by z3-term injection + SMT validity queries against a reference semantics, counterexample replay through the public API"
NOTE_TV = "Bounded by harness shapes (listed in the evidence); pydantic-core trusted to enforce declared field constraints; z3 4.12.6 is both the term builder of the code under test and the decision procedure; reference semantics from the documentation (DESIGN Appendix A)."


def tv(ref, text, note=NOTE_TV, technique=TECH_TV, level=TV):
    return dict(level=level, ref=ref, text=text, note=note, technique=technique)


CHECKS = {
    "C01": tv("DESIGN.md 4 C01", "The real task constructors and SchedulingSolver.initialize() are executed on z3-term parameters; for every symbolic path the assertion set actually handed to z3 is proved (unsat of the negation) to imply each timing clause for ALL parameter values and ALL admitted schedules, per task kind, optional flag, release/due/horizon combination, next to every other element kind and under several solver configurations; the same obligations are re-decided on unpatched builds at concrete parameter points. Counterexamples are replayed through the public API before being reported."),
    "C02": tv("DESIGN.md 4 C02", "Real add_required_resource / SelectWorkers / CumulativeWorker / initialize() executed symbolically; capacity is proved at a symbolic instant (free variable = all instants) for workers and cumulative workers, busy spans for static/delayed/dynamic assignments, selection counts for every kind and count, and the work-amount inequality with symbolic productivities; a cumulative worker listed as an alternative of several selections keeps its capacity; a worker required twice by one task (three forms) is rejected or every requirement holds; all for every admitted schedule and selection within the shape bounds."),
    "C03": tv("DESIGN.md 4 C03", "Every task-constraint class is declared through the real API with symbolic values/offsets/interval bounds on every mix of task kinds and optional flags (also as optional constraint, with a horizon, and with the solver object created before the constraint); each documented relation is proved for all admitted schedules under the scheduled/applied guards."),
    "C04": tv("DESIGN.md 4 C04", "Every resource-constraint class is declared through the real API on a plain worker, a worker reached through a selection and a cumulative worker, with symbolic interval bounds, workload bounds, distances, offsets and activity windows; periodic rules are proved for a symbolic period index; all for every admitted schedule and selection."),
    "C05": tv("DESIGN.md 4 C05", "Completeness: for every task constraint, resource constraint (on a plain worker), selection, cumulative worker, buffer (incl. two buffers sharing tasks) and single task, the quantified query 'S_valid(p, x) and forall aux. not phi_real(p, x, aux)' is shown unsat for symbolic parameters p and schedule x: every schedule valid beyond dispute is admitted by the constraint system the real code generates, also when an optional task named by the constraint is left unscheduled. Families added from findings: indicators/objectives never exclude a schedule; order-based rules with equal dates (zero-length tasks); a cumulative worker inside selection lists; a task unloading and loading one buffer; and, on a concrete small problem, class-generic twin builds over all constraint classes: declaring a rule twice loses no schedule, two different rules do not interfere (the composition argument, checked pair by pair). Counterexamples are replayed: the real solver must reject the pinned valid schedule.",
              technique="symbolic execution of the real encoder + quantified SMT queries (forall-auxiliaries, qe2/MBQI, explicit array/function witnesses) against S_valid, counterexample replay"),
    "C06": tv("DESIGN.md 4 C06", "Deletion equivalence: the problem with optional task T restricted to 'T unscheduled' and the same problem built without T (both by the real API in one symbolic run) admit the same schedules over all shared observables - two quantified halves per embedding context (resources, selections, cumulative, buffers, indicators/objectives, every two-task constraint, groups, counting, resource rules); scheduled optional tasks obey the C01 clauses; force/condition/dependency/count rules are sound and complete for every decision subset.",
              technique="symbolic execution of the real encoder + quantified SMT equivalence queries between two real builds, counterexample replay on both problems"),
    "C08": tv("DESIGN.md 4 C08", "For every indicator / objective-created indicator the real constructors are executed symbolically and phi_real => value == definition(schedule) is proved (within one unit for the utilisation ratio and the halved linear cost), over symbolic due dates, priorities, cost coefficients, bounds and all admitted schedules incl. unscheduled optional tasks and alternative assignments; indicator targets/bounds incl. value 0 and optional ones; idle time with zero-length / optional / selected / single tasks; number of tasks and utilisation of a cumulative worker; polynomial cost functions with concrete coefficients."),
    "C09": tv("DESIGN.md 4 C09", "The buffer section of the real initialize() is executed with symbolic quantities/levels/bounds; level after every change instant == initial + signed quantities of accesses up to that instant, sortedness and coverage of change times, final level, bounds on every level, distinct instants for non-concurrent buffers, ties admitted for concurrent ones; 1-4 accesses, one or two buffers."),
    "C10": tv("DESIGN.md 4 C10", "Every listed formula (depth <= 2, thorough 3) over the six connectives with raw Boolean atoms and built-in constraints as operands is declared through the real API; phi_real is proved equivalent to base rules AND connective(meanings): soundness plus the quantified completeness half, which also shows operands are not enforced on their own; optional formulas/constraints and force-apply-N counts likewise; user expressions verbatim. Class-generic twin builds over all 33-35 constraint classes: an optional constraint may be left unapplied, optional + forced equals mandatory, a constraint as operand of And/Or/Implies/IfThenElse in positive position equals its plain declaration; operands with auxiliary variables in negative position are a recorded known finding.",
              technique="symbolic execution of the real encoder + SMT equivalence (validity + quantified completeness) against the connective semantics, counterexample replay"),
    "C14": tv("DESIGN.md 4 C14", "Twins of one parametric problem are built by the real API in one symbolic run: canonical vs renamed (adversarial name pools), vs every permutation of each declaration stage, vs the same problem built after other problems were built/solved; the two assertion sets are proved to admit the same schedules over role-matched observables (two quantified halves), and z3's global parameters are compared for the history twins.",
              technique="symbolic execution of two real builds + quantified SMT equivalence between them, counterexample replay on both builds"),
    "C07": tv("DESIGN.md 4 C07", "The real solve(), _solve_optimize_incremental, create_objective and build_equivalent_weighted_objective run against a nondeterministic solver stub constrained only by z3's contract: every verdict sequence up to the bound, every symbolic model value, every clock script and max_iter setting is explored; per path z3 proves that pushed bounds are strict improvements in the objective's direction, that the returned model is the last sat one and no worse than earlier ones, that every exit claiming the optimum is justified by the contract, and that the optimised target is the (weighted sum of the) declared objective(s). Counterexamples are replayed on the real z3 behind a steering shim and judged by an independent 'does a better schedule exist' query.",
              level=MC, technique="symbolic execution of the real optimisation loop against a contract-level solver stub (bounded exploration of verdict sequences) + SMT obligations over symbolic model values, steered replay on the real z3",
              note="Bounded number of check() calls; z3's Optimize engine and the solver contract are trusted; problems without resources (build_solution branches are C11's)."),
    "C12": tv("DESIGN.md 4 C12", "Inductive step on the solver stub: from the stack Base + earlier blocking clauses and a fully symbolic current model, find_another_solution must append, at stack depth 1, a clause equivalent to 'some task start, end or scheduled flag differs from the current model' (exactness gives distinctness and exhaustiveness; persistence gives 'differs from every earlier schedule'); same for find_another_solution_for_variable; return values match verdicts. Five small concrete instances are additionally enumerated with the real z3 and compared with an independent enumeration (trace validation).",
              level=MC, technique="symbolic execution of the real enumeration methods against a contract-level solver stub + SMT equivalence of the blocking clause with its specification; real-z3 enumeration as trace validation",
              note="Bounded call sequences; solver contract trusted; exhaustiveness on arbitrary instances follows from clause exactness + persistence (inductive argument stated in DESIGN)."),
    "C13": tv("DESIGN.md 4 C13", "All sequences of public SchedulingSolver calls up to length 3 (thorough 4) are executed on the real code against the solver stub, for every verdict sequence: after every operation the solver stack must denote Base plus exact blocking clauses at depth 1 (no leftover optimisation bound, nothing dropped), and results must match verdicts (False only after unsat/unknown, solutions from the last sat model, objectives registered once). Replays run the same sequence on the real z3 with an independent oracle.",
              level=MC, technique="bounded exploration of call histories of the real solver object against a contract-level solver stub + AST/SMT invariant checks, replay on the real z3",
              note="Bounded history length and check() count; Pareto mode exempt by the property; solver contract trusted."),
    "C19": tv("DESIGN.md 4 C19", "The real debug-mode code (assert_and_track bookkeeping, unsat branch of solve()) runs against the solver stub answering unsat with every explored core; the constraints printed must be constraints of the problem and must include the owner of every constraint-owned core literal (ownership computed from the constraints' own assertion lists), which by monotonicity makes basic rules + printed constraints unsat; all constraint assertions are tracked with distinct literals; the debug assertion set under all tracking literals is proved equivalent to the non-debug one. Replays isolate the conflict on the real z3 and re-solve the printed subset independently.",
              level=MC, technique="symbolic execution of the real debug-mode control code against a contract-level solver stub over explored unsat cores + SMT equivalence debug vs non-debug, isolating replay on the real z3",
              note="z3's unsat-core extraction trusted; cores explored exhaustively only for <= 6 constraint-owned literals."),
    "C11": tv("DESIGN.md 4 C11", "The real build_solution() runs on an identity model (model[v] = v, Booleans = explorer choices consistent with phi_real), so every field of the returned solution is a term over the schedule variables and each obligation is a validity query under phi_real, i.e. holds for every model z3 could return: end - start = duration, reported start/end/flag are the schedule's, horizon >= every end, task<->resource listing consistency, assignment interval = the interval the requirement implies (span / shifted / inside), cumulative units folded once, unscheduled => no assignment, calendar times as exact symbolic multiples of delta_time. A concrete layer re-validates against real z3 models incl. delta_time of a day and more / sub-second.",
              level=MC, technique="symbolic execution of the real build_solution on an identity model stub + SMT validity queries under phi_real; real-z3 models as trace validation",
              note="Model stub contract: any model of phi_real; datetime arithmetic modelled as exact integer multiples; bounded shapes (3 tasks, workers, selection, cumulative, buffer, indicator)."),
    "C15": tv("DESIGN.md 4 C15", "For every configuration (optimizer x priority x parallel x random_values x debug x logics; quick: singles, pairs, some triples; thorough: full product) the real solver is constructed and initialised next to a default-configuration solver on the same parametric problem; the two assertion sets are proved equivalent as constraint systems (two quantified halves, debug under all tracking literals) and the objective wiring is compared with the declaration. z3's own behaviour under an option is trusted and exercised by a concrete layer (real z3, 3 instances x 11 configurations: verdicts, validity, optimum)."),
    "C16": tv("DESIGN.md 4 C16", "PARTLY APPLICABLE. Solver-decided: the SMT-LIB text written by the real export_to_smt2 (both optimisers, before/after a solve) is parsed back and proved equivalent to the system captured at solve()'s first check(); to_df() and the Excel exporter run on a symbolic solution with recording DataFrame/Workbook and every cell is proved equal to the reported field (columns start+1..max(start+1,end), nothing for unscheduled tasks, indicator values). Not solver-decided (compiled serialisers): byte-level JSON/CSV/XLSX and JSON round trips of task and cost-function definitions are only exercised by concrete round trips with the real libraries (six hand-written ones plus grids of about 1400 task definitions and 70 cost functions with every field at 0 / None / boundary values). The SMT-LIB export is additionally compared with the solver's own assertions, class by class, for 60 element classes with the real z3.",
              note="z3's printer/parser pair, pandas and xlsxwriter storing what they are given are trusted; byte-level serialisers are outside symbolic reach (trace validation only)."),
    "C17": tv("DESIGN.md 4 C17", "The real render_gantt_matplotlib runs on a solution with symbolic (integral real) times against a recording pyplot/axes; z3 proves that bars and reported items correspond one to one on the row whose tick label is the item's resource/task, span (start, end-start) or are a marker centred on the instant for zero length, that the task view draws scheduled tasks only, and that buffer curves are the reported step functions. A concrete layer renders every layout with the real Agg backend once and twice in a row and inspects the artists.",
              note="matplotlib trusted (recorder contract: it draws what it is asked to); floats as exact rationals; concrete horizon; plotly outside the claim."),
    "C18": tv("DESIGN.md 4 C18", "Q-region per integer parameter: accepted region of the real constructor (field constraints read from the class at run time AND non-raising paths of the symbolically executed constructor body) XOR the well-formed region of the property is shown unsat over all integers; every parameter is also run at boundary values on the unpatched constructors (ties the metadata to pydantic-core); finite class-level rules (optional-task rules on mandatory tasks, force-apply over mandatory constraints, resource constraints on unassigned resources, elements without a problem, duplicate names per registry over all equality patterns of three names, a worker required twice by a task in every form, measurements and resource rules on resources with 1-3 tasks) are executed on both sides; an acceptance sweep creates every public element class with its required arguments only and then with each optional argument."),
}

NOT_APPLICABLE = {}


def main():
    props = [json.loads(l) for l in open(os.path.join(VERIF, "properties.jsonl"))]
    checks = []
    for p in props:
        c = CHECKS.get(p["id"])
        if not c:
            continue
        checks.append({
            "property_id": p["id"],
            "quick_cmd": f"{RUN} {p['id']} --tier quick",
            "thorough_cmd": f"{RUN} {p['id']} --tier thorough",
            "evidence_file": f"/verif/evidence/{p['id']}.json",
            "replay_cmd_template": "/venv/bin/python -B /verif/replay.py {path}",
            "engine": "symx",
            "level_claimed": {"category": c["level"], "text": c["text"], "design_ref": c["ref"]},
            "level_note": c["note"],
            "technique": c["technique"],
        })
    na = []
    for p in props:
        if p["id"] not in CHECKS:
            na.append({"property_id": p["id"], "reason": NOT_APPLICABLE.get(p["id"], "check not built yet in this round (in progress); see DESIGN.md section 4 for the intended solver-based check")})
    man = {
        "version": 1,
        "setup_cmd": "/venv/bin/python -B /verif/tools/setup.py",
        "hooks": {
            "guard": "PROCESSSCHEDULER_VERIF",
            "enable": "no source hooks: all instrumentation (BoolRef.__bool__, BaseModelWithJson.__init__ wrapper, solver stubs) is installed by the harness inside its own process; the variable is reserved and unused",
            "baseline_off_cmd": "cd /repo && /venv/bin/python -m pytest -ra -q -p no:cacheprovider --timeout=900 --continue-on-collection-errors",
            "source_commits": [],
            "add_only": True,
        },
        "engines": [
            {"name": "symx", "path": "/verif/symx", "serves_properties": sorted(CHECKS),
             "kind_free_text": "symbolic execution of ProcessScheduler's own Python by z3-term injection (forking BoolRef.__bool__, pydantic placeholder/overwrite), SMT validity/equivalence queries with z3 4.12.6, contract-level solver stubs for control code, replay through the unpatched public API"},
        ],
        "checks": checks,
        "notes": "Exit codes: 0 = every obligation discharged (or listed in known_findings.json); 1 = replay-confirmed violation (VIOLATION line); 3 = inconclusive (unknown/timeout/non-reproducing counterexample), never reported as success. Known findings: /verif/known_findings.json.",
        "not_applicable": na,
    }
    with open(os.path.join(VERIF, "MANIFEST.json"), "w") as f:
        json.dump(man, f, indent=1)
    print("checks:", [c["property_id"] for c in checks], "not_applicable:", [n["property_id"] for n in na])


if __name__ == "__main__":
    main()
