#!/venv/bin/python
"""Regenerate /verif/MANIFEST.json from the table below (kept in one place so it stays valid)."""
import json
import os

VERIF = os.path.dirname(os.path.dirname(os.path.abspath(__file__)))
RUN = "/venv/bin/python -B /verif/run_check.py"

TV = "translation_validation"
MC = "model_checking"

TECH_TV = "symbolic execution of the real encoder by z3-term injection + SMT validity queries against a reference semantics, counterexample replay through the public API"
NOTE_TV = "Bounded by harness shapes (listed in the evidence); pydantic-core trusted to enforce declared field constraints; z3 4.12.6 is both the term builder of the code under test and the decision procedure; reference semantics from the documentation (DESIGN Appendix A)."


def tv(ref, text, note=NOTE_TV, technique=TECH_TV, level=TV):
    return dict(level=level, ref=ref, text=text, note=note, technique=technique)


CHECKS = {
    "C01": tv("DESIGN.md 4 C01", "The real task constructors and SchedulingSolver.initialize() are executed on z3-term parameters; for every symbolic path the assertion set actually handed to z3 is proved (unsat of the negation) to imply each timing clause for ALL parameter values and ALL admitted schedules, per task kind, optional flag, release/due/horizon combination, next to every other element kind and under several solver configurations; the same obligations are re-decided on unpatched builds at concrete parameter points. Counterexamples are replayed through the public API before being reported."),
    "C02": tv("DESIGN.md 4 C02", "Real add_required_resource / SelectWorkers / CumulativeWorker / initialize() executed symbolically; capacity is proved at a symbolic instant (free variable = all instants) for workers and cumulative workers, busy spans for static/delayed/dynamic assignments, selection counts for every kind and count, and the work-amount inequality with symbolic productivities; all for every admitted schedule and selection within the shape bounds."),
    "C03": tv("DESIGN.md 4 C03", "Every task-constraint class is declared through the real API with symbolic values/offsets/interval bounds on every mix of task kinds and optional flags (also as optional constraint, with a horizon, and with the solver object created before the constraint); each documented relation is proved for all admitted schedules under the scheduled/applied guards."),
    "C04": tv("DESIGN.md 4 C04", "Every resource-constraint class is declared through the real API on a plain worker, a worker reached through a selection and a cumulative worker, with symbolic interval bounds, workload bounds, distances, offsets and activity windows; periodic rules are proved for a symbolic period index; all for every admitted schedule and selection."),
}

NOT_APPLICABLE = {}


def main():
    props = [json.loads(l) for l in open(os.path.join(VERIF, "properties.jsonl"))]
    checks = []
    for p in props:
        c = CHECKS.get(p["id"])
        if not c:
            continue
        checks.append({
            "property_id": p["id"],
            "quick_cmd": f"{RUN} {p['id']} --tier quick",
            "thorough_cmd": f"{RUN} {p['id']} --tier thorough",
            "evidence_file": f"/verif/evidence/{p['id']}.json",
            "replay_cmd_template": "/venv/bin/python -B /verif/replay.py {path}",
            "engine": "symx",
            "level_claimed": {"category": c["level"], "text": c["text"], "design_ref": c["ref"]},
            "level_note": c["note"],
            "technique": c["technique"],
        })
    na = []
    for p in props:
        if p["id"] not in CHECKS:
            na.append({"property_id": p["id"], "reason": NOT_APPLICABLE.get(p["id"], "check not built yet in this round (in progress); see DESIGN.md section 4 for the intended solver-based check")})
    man = {
        "version": 1,
        "setup_cmd": "/venv/bin/python -B /verif/tools/setup.py",
        "hooks": {
            "guard": "PROCESSSCHEDULER_VERIF",
            "enable": "no source hooks: all instrumentation (BoolRef.__bool__, BaseModelWithJson.__init__ wrapper, solver stubs) is installed by the harness inside its own process; the variable is reserved and unused",
            "baseline_off_cmd": "cd /repo && /venv/bin/python -m pytest -ra -q -p no:cacheprovider --timeout=900 --continue-on-collection-errors",
            "source_commits": [],
            "add_only": True,
        },
        "engines": [
            {"name": "symx", "path": "/verif/symx", "serves_properties": sorted(CHECKS),
             "kind_free_text": "symbolic execution of ProcessScheduler's own Python by z3-term injection (forking BoolRef.__bool__, pydantic placeholder/overwrite), SMT validity/equivalence queries with z3 4.12.6, contract-level solver stubs for control code, replay through the unpatched public API"},
        ],
        "checks": checks,
        "notes": "Exit codes: 0 = every obligation discharged (or listed in known_findings.json); 1 = replay-confirmed violation (VIOLATION line); 3 = inconclusive (unknown/timeout/non-reproducing counterexample), never reported as success. Known findings: /verif/known_findings.json.",
        "not_applicable": na,
    }
    with open(os.path.join(VERIF, "MANIFEST.json"), "w") as f:
        json.dump(man, f, indent=1)
    print("checks:", [c["property_id"] for c in checks], "not_applicable:", [n["property_id"] for n in na])


if __name__ == "__main__":
    main()
