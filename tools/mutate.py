#!/venv/bin/python
"""Mutation campaign of the harness against /repo (self-test of the checks, DESIGN 9).
Single-point AST mutants of processscheduler/*.py are generated; each mutant package is written to a
scratch directory that shadows the installed one through PYTHONPATH (the repository itself is never
modified), and the quick checks relevant to the mutated file are run until one of them alarms.
usage: tools/mutate.py <outdir> <n_mutants> [seed] [start index]     -> <outdir>/results.jsonl"""
import ast
import copy
import json
import os
import random
import shutil
import subprocess
import sys

REPO = os.environ.get("VP_RUN_REPO") or "/repo"
VERIF = os.path.dirname(os.path.dirname(os.path.abspath(__file__)))
REL = {
    "task.py": ["C01", "C02", "C06", "C05", "C11", "C14"],
    "task_constraint.py": ["C03", "C05", "C06", "C10", "C09"],
    "resource.py": ["C02", "C05", "C18", "C11"],
    "resource_constraint.py": ["C04", "C05", "C06", "C18"],
    "solver.py": ["C01", "C02", "C09", "C07", "C13", "C12", "C11", "C19", "C16", "C05", "C15", "C06"],
    "indicator.py": ["C08", "C06", "C07"],
    "objective.py": ["C08", "C07", "C06", "C14"],
    "constraint.py": ["C10", "C18", "C03"],
    "first_order_logic.py": ["C10"],
    "util.py": ["C09", "C08", "C04", "C03", "C11", "C05"],
    "buffer.py": ["C09", "C18", "C05"],
    "problem.py": ["C18", "C01", "C14", "C02"],
    "solution.py": ["C16", "C11"],
    "excel_io.py": ["C16"],
    "indicator_constraint.py": ["C08", "C18"],
    "function.py": ["C08", "C16"],
    "plotter.py": ["C17"],
}
CMP = {ast.Lt: ast.LtE, ast.LtE: ast.Lt, ast.Gt: ast.GtE, ast.GtE: ast.Gt, ast.Eq: ast.NotEq, ast.NotEq: ast.Eq, ast.Is: ast.IsNot, ast.IsNot: ast.Is}
BIN = {ast.Add: ast.Sub, ast.Sub: ast.Add}
CALLS = {"And": "Or", "Or": "And", "PbGe": "PbLe", "PbLe": "PbGe", "Implies": "And"}
DROP = {"append_z3_assertion", "set_z3_assertions", "append_z3_list_of_assertions"}
# a sibling taken for the other one (attribute or local name)
SWAP = {}
for _a, _b in (("_start", "_end"), ("task_before", "task_after"), ("min_duration", "max_duration"), ("release_date", "due_date"),
               ("delay_in", "early_out"), ("lower_bound", "upper_bound"), ("interv_low", "interv_up"), ("start_task_i", "end_task_i"),
               ("start_task_k", "end_task_k"), ("sorted_starts", "sorted_ends"), ("initial_level", "final_level"), ("start_time", "end_time"),
               ("_unloading_tasks", "_loading_tasks"), ("interval_lower_bound", "interval_upper_bound"), ("time_interval_lower_bound", "time_interval_upper_bound")):
    SWAP[_a], SWAP[_b] = _b, _a


class Collector(ast.NodeVisitor):
    def __init__(self):
        self.sites = []
        self.stack = []

    def generic_visit(self, node):
        if isinstance(node, (ast.FunctionDef, ast.ClassDef)):
            self.stack.append(node.name)
        skip = isinstance(node, ast.FunctionDef) and node.name in ("render_gantt_plotly", "plot_function", "get_parameters_description", "print_assertions", "print_statistics", "print_solution")
        if not skip:
            where = ".".join(self.stack)
            if isinstance(node, ast.Compare) and len(node.ops) == 1 and type(node.ops[0]) in CMP:
                self.sites.append(("cmp", node.lineno, node.col_offset, where))
            elif isinstance(node, ast.BinOp) and type(node.op) in BIN:
                self.sites.append(("bin", node.lineno, node.col_offset, where))
            elif isinstance(node, ast.Constant) and isinstance(node.value, int) and not isinstance(node.value, bool) and 0 <= node.value <= 2:
                self.sites.append(("const", node.lineno, node.col_offset, where))
            elif isinstance(node, ast.Call) and isinstance(node.func, ast.Attribute) and node.func.attr in CALLS and isinstance(node.func.value, ast.Name) and node.func.value.id == "z3":
                self.sites.append(("call", node.lineno, node.col_offset, where))
            elif isinstance(node, ast.Expr) and isinstance(node.value, ast.Call) and isinstance(node.value.func, ast.Attribute) and node.value.func.attr in DROP:
                self.sites.append(("drop", node.lineno, node.col_offset, where))
            elif isinstance(node, ast.BoolOp):
                self.sites.append(("boolop", node.lineno, node.col_offset, where))
            elif isinstance(node, ast.Attribute) and node.attr in SWAP and isinstance(node.ctx, ast.Load):
                self.sites.append(("swapattr", node.lineno, node.col_offset, where))
            elif isinstance(node, ast.Name) and node.id in SWAP and isinstance(node.ctx, ast.Load):
                self.sites.append(("swapname", node.lineno, node.col_offset, where))
            super().generic_visit(node)
        if isinstance(node, (ast.FunctionDef, ast.ClassDef)):
            self.stack.pop()


class Mutator(ast.NodeTransformer):
    def __init__(self, site):
        self.kind, self.line, self.col, _ = site
        self.done = None

    def _hit(self, node):
        return getattr(node, "lineno", None) == self.line and getattr(node, "col_offset", None) == self.col and self.done is None

    def visit_Compare(self, node):
        self.generic_visit(node)
        if self.kind == "cmp" and len(node.ops) == 1 and type(node.ops[0]) in CMP and self._hit(node):
            old = type(node.ops[0]).__name__
            node.ops = [CMP[type(node.ops[0])]()]
            self.done = f"{old} -> {type(node.ops[0]).__name__}"
        return node

    def visit_BinOp(self, node):
        self.generic_visit(node)
        if self.kind == "bin" and type(node.op) in BIN and self._hit(node):
            old = type(node.op).__name__
            node.op = BIN[type(node.op)]()
            self.done = f"{old} -> {type(node.op).__name__}"
        return node

    def visit_Constant(self, node):
        if self.kind == "const" and isinstance(node.value, int) and not isinstance(node.value, bool) and self._hit(node):
            self.done = f"{node.value} -> {node.value + 1}"
            return ast.copy_location(ast.Constant(value=node.value + 1), node)
        return node

    def visit_Call(self, node):
        self.generic_visit(node)
        if self.kind == "call" and isinstance(node.func, ast.Attribute) and node.func.attr in CALLS and self._hit(node):
            old = node.func.attr
            node.func.attr = CALLS[old]
            self.done = f"z3.{old} -> z3.{node.func.attr}"
        return node

    def visit_Expr(self, node):
        if self.kind == "drop" and self._hit(node):
            self.done = f"dropped {node.value.func.attr}(...)"
            return ast.copy_location(ast.Pass(), node)
        self.generic_visit(node)
        return node

    def visit_Attribute(self, node):
        self.generic_visit(node)
        if self.kind == "swapattr" and node.attr in SWAP and self._hit(node):
            self.done = f".{node.attr} -> .{SWAP[node.attr]}"
            node.attr = SWAP[node.attr]
        return node

    def visit_Name(self, node):
        if self.kind == "swapname" and node.id in SWAP and self._hit(node):
            self.done = f"{node.id} -> {SWAP[node.id]}"
            return ast.copy_location(ast.Name(id=SWAP[node.id], ctx=node.ctx), node)
        return node

    def visit_BoolOp(self, node):
        self.generic_visit(node)
        if self.kind == "boolop" and self._hit(node):
            old = type(node.op).__name__
            node.op = ast.Or() if isinstance(node.op, ast.And) else ast.And()
            self.done = f"{old} -> {type(node.op).__name__}"
        return node


# C18's acceptance sweep is cheap (a few seconds) and catches the mutants that simply make a well-formed call raise
for _f, _lst in REL.items():
    if "C18" not in _lst and _f not in ("plotter.py", "excel_io.py", "solution.py"):
        _lst.insert(0, "C18")


def all_sites():
    out = []
    for fn in sorted(REL):
        src = open(os.path.join(REPO, "processscheduler", fn)).read()
        c = Collector()
        c.visit(ast.parse(src))
        out += [(fn,) + s for s in c.sites]
    return out


def main():
    outdir, n = sys.argv[1], int(sys.argv[2])
    seed = int(sys.argv[3]) if len(sys.argv) > 3 else 1
    start = int(sys.argv[4]) if len(sys.argv) > 4 else 0  # resume a campaign at this index
    os.makedirs(outdir, exist_ok=True)
    sites = all_sites()
    rnd = random.Random(seed)
    rnd.shuffle(sites)
    print(f"{len(sites)} mutation sites; running {n}", flush=True)
    res = open(os.path.join(outdir, "results.jsonl"), "a")
    for k, (fn, kind, line, col, where) in enumerate(sites[:n]):
        if k < start:
            continue
        src = open(os.path.join(REPO, "processscheduler", fn)).read()
        tree = ast.parse(src)
        m = Mutator((kind, line, col, where))
        tree = m.visit(tree)
        if m.done is None:
            continue
        ast.fix_missing_locations(tree)
        mdir = os.path.join(outdir, f"m{k}")
        shutil.rmtree(mdir, ignore_errors=True)
        shutil.copytree(os.path.join(REPO, "processscheduler"), os.path.join(mdir, "processscheduler"), ignore=shutil.ignore_patterns("__pycache__"))
        with open(os.path.join(mdir, "processscheduler", fn), "w") as f:
            f.write(ast.unparse(tree))
        env = dict(os.environ, PYTHONPATH=mdir, VERIF_NO_EVIDENCE="1")
        rec = {"k": k, "file": fn, "where": where, "line": line, "kind": kind, "mutation": m.done, "source_line": src.splitlines()[line - 1].strip()[:120], "checks": {}}
        imp = subprocess.run(["/venv/bin/python", "-c", "import processscheduler"], env=env, capture_output=True, text=True)
        if imp.returncode:
            rec["verdict"] = "does not import"
        else:
            rec["verdict"] = "survived"
            for check in REL[fn]:
                r = subprocess.run(["/venv/bin/python", "-B", os.path.join(VERIF, "run_check.py"), check, "--tier", "quick"], env=env, capture_output=True, text=True, cwd=VERIF)
                rec["checks"][check] = r.returncode
                if r.returncode == 1:
                    rec["verdict"] = f"killed by {check}"
                    rec["first"] = ([l for l in r.stdout.splitlines() if l.startswith("VIOLATION")] or [""])[0][:200]
                    break
                if r.returncode == 3 and rec["verdict"] == "survived":
                    rec["verdict"] = f"inconclusive in {check}"
                    rec["first"] = ([l for l in r.stdout.splitlines() if l.startswith("INCONCLUSIVE")] or [""])[0][:200]
        shutil.rmtree(mdir, ignore_errors=True)
        res.write(json.dumps(rec) + "\n")
        res.flush()
        print(json.dumps({k2: rec[k2] for k2 in ("k", "file", "where", "line", "mutation", "source_line", "verdict")}), flush=True)


if __name__ == "__main__":
    main()
