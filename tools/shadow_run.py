#!/venv/bin/python
"""Run quick checks against /repo + one patch without touching /repo or the evidence: the package is copied to a
scratch directory, the patch applied there (git apply outside any repository), and the copy put on PYTHONPATH.
usage: tools/shadow_run.py <patch.diff> <CHECK>[,<CHECK>...] [--out results.jsonl] [--tag name]
exit: 0 no alarm, 1 some check reported a VIOLATION, 3 some check was inconclusive, 9 patch does not apply"""
import json
import os
import shutil
import subprocess
import sys
import tempfile

VERIF = os.path.dirname(os.path.dirname(os.path.abspath(__file__)))


def main():
    patch, checks = os.path.abspath(sys.argv[1]), sys.argv[2].split(",")
    out = sys.argv[sys.argv.index("--out") + 1] if "--out" in sys.argv else None
    tag = sys.argv[sys.argv.index("--tag") + 1] if "--tag" in sys.argv else os.path.basename(patch)
    repo = os.environ.get("VP_RUN_REPO") or "/repo"
    d = tempfile.mkdtemp(prefix="shadow_")
    rc = 0
    try:
        shutil.copytree(os.path.join(repo, "processscheduler"), os.path.join(d, "processscheduler"), ignore=shutil.ignore_patterns("__pycache__"))
        a = subprocess.run(["git", "apply", "--include=processscheduler/*", patch], cwd=d, capture_output=True, text=True)
        if a.returncode:
            print(json.dumps({"patch": tag, "result": "does not apply", "err": a.stderr[-200:]}))
            return 9
        env = dict(os.environ, PYTHONPATH=d, VERIF_NO_EVIDENCE="1")
        for c in checks:
            r = subprocess.run(["/venv/bin/python", "-B", os.path.join(VERIF, "run_check.py"), c, "--tier", "quick"], env=env, capture_output=True, text=True, cwd=VERIF)
            lines = r.stdout.splitlines()
            rec = {"patch": tag, "check": c, "exit": r.returncode, "violations": sum(l.startswith("VIOLATION") for l in lines),
                   "inconclusive": sum(l.startswith("INCONCLUSIVE") for l in lines),
                   "first": ([l for l in lines if l.startswith(("VIOLATION", "INCONCLUSIVE"))] or [""])[0][:400]}
            print(json.dumps(rec), flush=True)
            if out:
                with open(out, "a") as f:
                    f.write(json.dumps(rec) + "\n")
            rc = max(rc, r.returncode)
        return rc
    finally:
        shutil.rmtree(d, ignore_errors=True)


if __name__ == "__main__":
    sys.exit(main())
