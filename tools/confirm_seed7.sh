#!/bin/bash
# usage: confirm_seed6.sh <Cnn>   -- confirms a round-6 blinded seed in a scratch worktree and runs its own check on it
# (demo on base = 0, demo on patched != 0, existing suite on patched, quick check on patched); writes seeded/R7-<id>/
set -u
id=$1; src=/tmp/r7_$id; out=/verif/seeded/R7-$id; wt=/tmp/r7v_$id
mkdir -p $out
cp $src/seed_patch.diff $out/patch.diff; cp $src/seed_demo.py $out/demo.py; cp $src/seed_note.txt $out/note.txt 2>/dev/null
git -C /repo worktree add -q --detach $wt HEAD || exit 8
cd $wt
PYTHONPATH=$wt timeout 600 /venv/bin/python -B $out/demo.py > $out/.demo_base.log 2>&1; b=$?
git apply $out/patch.diff || { echo "PATCH DOES NOT APPLY"; cd /; git -C /repo worktree remove --force $wt; exit 9; }
PYTHONPATH=$wt timeout 600 /venv/bin/python -B $out/demo.py > $out/.demo_patched.log 2>&1; p=$?
( PYTHONPATH=$wt timeout 1500 /venv/bin/python -m pytest -q -p no:cacheprovider --timeout=900 -n 3 test/ 2>&1 | tail -1 > $out/.suite.log ) &
VERIF_NO_EVIDENCE=1 PYTHONPATH=$wt /venv/bin/python -B /verif/run_check.py $id --tier quick > $out/.check.log 2>&1; c=$?
wait
echo "$id demo_base=$b demo_patched=$p check_exit=$c suite=$(cat $out/.suite.log)"
grep -E "^VIOLATION|^INCONCLUSIVE" $out/.check.log | head -3 | cut -c1-300
cd /; git -C /repo worktree remove --force $wt
