#!/venv/bin/python
"""Run every seeded change against the quick check of its own property (and optionally others).
usage: tools/seed_matrix.py [SEED ...]   -> appends to seeded/RESULTS.jsonl
       tools/seed_matrix.py --shadow <out.jsonl> [SEED ...]   (PYTHONPATH shadow copies: /repo and the evidence stay untouched)
Each seed is applied to /repo's working tree (git apply, falling back to patch_rebased.diff), the
check is run, and the tree is reset. NOTHING is committed to /repo."""
import json
import os
import subprocess
import sys

VERIF = os.path.dirname(os.path.dirname(os.path.abspath(__file__)))
EXTRA = {  # other properties whose checks are expected to see the change as well
    "C05-A": ["C06"], "C05-B": ["C09"], "C06-A": ["C05"], "C06-B": ["C05"], "C11-B": ["C02"], "C13-B": ["C12"], "C12-A": ["C13"],
    "C15-A": ["C19"], "C15-B": ["C07"], "C07-A": ["C15"], "C08-A": ["C18"], "C09-A": ["C05"], "C16-A": ["C13"], "C03-B": ["C01"],
    "C14-B": ["C02"], "C13-A": ["C07"],
    "R2-C14": ["C07"], "R2-C15": ["C07"], "R2-C16": ["C13"], "R2-C13": ["C16"], "R2-C07": ["C14"], "R2-C11": ["C12"], "R2-C05": ["C04"],
}


def sh(cmd, **kw):
    return subprocess.run(cmd, shell=True, capture_output=True, text=True, **kw)


def clean():
    return sh("git -C /repo status --porcelain --untracked-files=no").stdout.strip() == ""


def apply(seed):
    d = os.path.join(VERIF, "seeded", seed)
    for name in ("patch_rebased.diff", "patch.diff"):
        p = os.path.join(d, name)
        if os.path.exists(p):
            r = sh(f"git -C /repo apply {p}")
            if r.returncode == 0:
                return name
            sh("git -C /repo reset -q --hard HEAD")
    return None


def shadow(seed):
    """copy of the package with the seed applied, to be put on PYTHONPATH; /repo is not touched"""
    import shutil
    import tempfile
    repo = os.environ.get("VP_RUN_REPO") or "/repo"
    d = tempfile.mkdtemp(prefix="seed_")
    shutil.copytree(os.path.join(repo, "processscheduler"), os.path.join(d, "processscheduler"), ignore=shutil.ignore_patterns("__pycache__"))
    for name in ("patch_rebased.diff", "patch.diff"):
        p = os.path.join(VERIF, "seeded", seed, name)
        if os.path.exists(p):
            r = sh(f"git apply --include='processscheduler/*' {p}", cwd=d)
            if r.returncode == 0:
                return d, name
    shutil.rmtree(d, ignore_errors=True)
    return None, None


def main_shadow(seeds, out):
    import shutil
    for seed in seeds:
        prop = seed.split("-")[1] if seed.startswith("R2-") else seed.split("-")[0]
        d, which = shadow(seed)
        for check in [prop] + EXTRA.get(seed, []):
            if d is None:
                rec = {"seed": seed, "check": check, "applied": None, "result": "patch does not apply to the fixed tree (superseded by a fix: commit or needs a rebase)"}
            else:
                r = sh(f"/venv/bin/python -B {VERIF}/run_check.py {check} --tier quick", cwd=VERIF, env=dict(os.environ, PYTHONPATH=d, VERIF_NO_EVIDENCE="1"))
                viol = [l for l in r.stdout.splitlines() if l.startswith("VIOLATION")]
                inc = [l for l in r.stdout.splitlines() if l.startswith("INCONCLUSIVE")]
                rec = {"seed": seed, "check": check, "applied": which, "exit": r.returncode, "violations": len(viol),
                       "inconclusive": len(inc), "first": (viol or inc or [""])[0][:300]}
            print(json.dumps(rec), flush=True)
            with open(out, "a") as f:
                f.write(json.dumps(rec) + "\n")
        if d:
            shutil.rmtree(d, ignore_errors=True)


def main():
    if len(sys.argv) > 1 and sys.argv[1] == "--shadow":
        out = sys.argv[2]
        seeds = sys.argv[3:] or sorted(x for x in os.listdir(os.path.join(VERIF, "seeded")) if os.path.isdir(os.path.join(VERIF, "seeded", x)) and x != "refactors")
        return main_shadow(seeds, out)
    seeds = sys.argv[1:] or sorted(x for x in os.listdir(os.path.join(VERIF, "seeded")) if os.path.isdir(os.path.join(VERIF, "seeded", x)) and x != "refactors")
    assert clean(), "/repo has uncommitted changes"
    for seed in seeds:
        prop = seed.split("-")[1] if seed.startswith("R2-") else seed.split("-")[0]
        for check in [prop] + EXTRA.get(seed, []):
            which = apply(seed)
            if which is None:
                rec = {"seed": seed, "check": check, "applied": None, "result": "patch does not apply to the fixed tree (superseded by a fix: commit or needs a rebase)"}
            else:
                r = sh(f"/venv/bin/python -B {VERIF}/run_check.py {check} --tier quick", cwd=VERIF)
                viol = [l for l in r.stdout.splitlines() if l.startswith("VIOLATION")]
                inc = [l for l in r.stdout.splitlines() if l.startswith("INCONCLUSIVE")]
                rec = {"seed": seed, "check": check, "applied": which, "exit": r.returncode, "violations": len(viol),
                       "inconclusive": len(inc), "first": (viol or inc or [""])[0][:300]}
                sh("git -C /repo reset -q --hard HEAD")
            print(json.dumps(rec), flush=True)
            with open(os.path.join(VERIF, "seeded", "RESULTS.jsonl"), "a") as f:
                f.write(json.dumps(rec) + "\n")
    assert clean()


if __name__ == "__main__":
    main()
