#!/venv/bin/python
"""Offline setup: nothing to build. Verifies that the interpreter, z3 and the repository import."""
import os
import sys

sys.path.insert(0, os.path.dirname(os.path.dirname(os.path.abspath(__file__))))
import z3  # noqa
import processscheduler  # noqa
from symx import engine, formula, harness  # noqa

os.makedirs("/verif/evidence", exist_ok=True)
os.makedirs("/verif/replays", exist_ok=True)
print("setup ok: z3", z3.get_version_string(), "processscheduler from", os.path.dirname(processscheduler.__file__))
