#!/venv/bin/python
"""Run checks against a one-line mutant of /repo without touching /repo (PYTHONPATH shadow copy under /tmp).
usage: tools/try_mutant.py <file under processscheduler/> <line> <old text> <new text> <CHECK>[,<CHECK>...] [shape filter]"""
import os
import shutil
import subprocess
import sys
import tempfile

VERIF = os.path.dirname(os.path.dirname(os.path.abspath(__file__)))


def main():
    fn, line, old, new, checks = sys.argv[1], int(sys.argv[2]), sys.argv[3], sys.argv[4], sys.argv[5].split(",")
    only = sys.argv[6] if len(sys.argv) > 6 else None
    d = tempfile.mkdtemp(prefix="mut_")
    try:
        shutil.copytree("/repo/processscheduler", os.path.join(d, "processscheduler"), ignore=shutil.ignore_patterns("__pycache__"))
        p = os.path.join(d, "processscheduler", fn)
        lines = open(p).read().split("\n")
        if old not in lines[line - 1]:
            print(f"line {line} does not contain {old!r}: {lines[line - 1]!r}")
            return 2
        lines[line - 1] = lines[line - 1].replace(old, new, 1)
        open(p, "w").write("\n".join(lines))
        env = dict(os.environ, PYTHONPATH=d, VERIF_NO_EVIDENCE="1")
        if only:
            env["VERIF_ONLY"] = only
        rc = 0
        for c in checks:
            r = subprocess.run(["/venv/bin/python", "-B", os.path.join(VERIF, "run_check.py"), c], env=env, capture_output=True, text=True, cwd=VERIF)
            keep = [l[:260] for l in r.stdout.splitlines() if l.startswith(("VIOLATION", "INCONCLUSIVE", "KNOWN")) or "[quick]" in l]
            print("\n".join(keep[:4] + keep[-1:]))
            print(f"{c}: exit {r.returncode}")
            rc = max(rc, r.returncode)
        return rc
    finally:
        shutil.rmtree(d, ignore_errors=True)


if __name__ == "__main__":
    sys.exit(main())
